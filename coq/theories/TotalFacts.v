(* C12 last_line, and C19: under the representation invariant every modelled public call returns a
   value or an error - never a panic, never an exhausted loop bound - for every argument *)
From Coq Require Import List NArith ZArith Lia Bool Arith ZifyBool ZifyN ZifyNat Sorted.
From Coq Require Import Strings.Byte.
Require Import BS.Bytes BS.Common BS.CommonFacts BS.Api BS.Layout BS.Format BS.FormatFacts BS.Spec BS.Sections.
Require Import BS.FS BS.FSFacts BS.Meta BS.MetaFacts BS.Header BS.Reader BS.ReaderFacts BS.Index BS.Data BS.DataFacts BS.Seek BS.SeekFacts.
Require Import BS.Series BS.SeriesFacts BS.RangeFacts BS.RangeRead BS.SampleFacts BS.ReadAllFacts.
Import ListNotations.
Close Scope N_scope. Open Scope nat_scope.
Arguments N.add : simpl never. Arguments N.mul : simpl never. Arguments N.sub : simpl never.
Arguments N.ltb : simpl never. Arguments N.leb : simpl never. Arguments N.eqb : simpl never.

(* the call came back with a value or an error *)
Definition returns {A} (r:fsys * res A) : Prop :=
  match snd r with Ok _ => True | Err _ => True | Panic => False | OutOfFuel => False end.

Lemma last_snoc_split' (m:list line) : m <> [] -> exists l' x, m = l' ++ [x].
Proof. intros H. destruct (exists_last H) as (l' & x & E). eauto. Qed.

Section LastLine.
Variable p : nat.
Notation L := (p + 2).
(* the last-line read of Data::last_line / Data::open_existing *)
Lemma last_line_of_ok fs fo cb ix hdr (l:list line) :
  file_is fs fo hdr (encode p l) -> wf_series p l -> ix_last ix = full_after p None l ->
  last_line_of ix (len (encode p l)) p fo cb fs = (fs, match last_opt l with Some x => Ok x | None => Err ENoData end).
Proof.
  intros FI W IXL.
  unfold last_line_of. rewrite IXL.
  destruct l as [|x0 t0] eqn:El; [reflexivity|]. rewrite <- El in *.
  destruct (last_snoc_split' l ltac:(rewrite El; discriminate)) as (l' & x & E).
  assert (LO : last_opt l = Some x) by (rewrite E; apply last_opt_snoc).
  rewrite LO.
  (* the last full timestamp and the last slot *)
  pose proof (full_after_snoc p l' x None) as FA. rewrite <- E in FA.
  pose proof (encode_snoc p l' x) as EN. rewrite <- E in EN.
  destruct W as [S F].
  assert (Fx : (fst x < 2^64)%N /\ length (snd x) = p).
  { rewrite Forall_forall in F. apply F. rewrite E. apply in_or_app. right. left. reflexivity. }
  destruct Fx as [Hx Hp].
  remember (full_after p None l') as f0 eqn:F0.
  assert (ORD : match f0 with Some f => (f <= fst x)%N | None => True end).
  { destruct f0 as [f|]; [|exact I].
    assert (W' : wf_series p l').
    { split; [rewrite E, map_app in S; apply sorted_app_inv in S; apply S|rewrite E in F; apply Forall_app in F; apply F]. }
    assert (NE : l' <> []) by (intros ->; discriminate).
    destruct (last_snoc_split' l' NE) as (l'' & z & E2).
    pose proof (full_after_le_last p l' None f (wf_ok_from p l' None W' I) (eq_sym F0) z ltac:(rewrite E2; apply last_opt_snoc)) as LE.
    enough (fst z < fst x)%N by lia.
    rewrite E, E2 in S. rewrite !map_app in S. cbn [map] in S. rewrite <- app_assoc in S.
    apply sorted_app_inv in S. destruct S as (_ & S & _). cbn [app] in S.
    inversion S as [|? ? _ Hall]; subst. inversion Hall; subst. assumption. }
  (* two cases of the 65534 rule *)
  set (tb := tail_bytes p f0 x) in *.
  assert (TB : exists f pre, snd tb = Some f /\ fst tb = pre ++ enc_line (fst x - f) (snd x)
                             /\ (f <= fst x)%N /\ (fst x - f <= MAXD)%N /\ length pre mod L = 0).
  { unfold tb, tail_bytes. destruct f0 as [f|].
    - destruct (fst x - f <=? MAXD)%N eqn:C.
      + exists f, []. cbn [fst snd app]. apply N.leb_le in C. repeat split; try assumption. apply Nat.mod_0_l. lia.
      + exists (fst x), (enc_section p (fst x)). cbn [fst snd]. rewrite N.sub_diag. repeat split; try reflexivity; try lia.
        rewrite enc_section_length. apply Nat.mod_mul. lia.
    - exists (fst x), (enc_section p (fst x)). cbn [fst snd]. rewrite N.sub_diag. repeat split; try reflexivity; try lia.
      rewrite enc_section_length. apply Nat.mod_mul. lia. }
  destruct TB as (f & pre & TB2 & TB1 & Hfx & Hd & Hpre).
  rewrite FA, TB2.
  assert (EL : length (enc_line (fst x - f) (snd x)) = L).
  { unfold enc_line. rewrite app_length, le_enc_length, Hp. lia. }
  set (region := encode p l) in *.
  assert (RL : length region = length (encode p l' ++ pre) + L).
  { rewrite EN, TB1, app_assoc, app_length, EL. reflexivity. }
  replace (len region <? line_size p)%N with false by (symmetry; apply N.ltb_ge; unfold len, line_size; lia).
  assert (FR : fwim_read fo p cb (len region - line_size p) (len region) f fs = (fs, Ok [x])).
  { unfold fwim_read.
    erewrite mbind_ok by (apply (of_read_from_0 _ _ hdr region); exact FI).
    replace (len region - line_size p)%N with (N.of_nat (length region - L)) by (unfold len, line_size; lia).
    unfold len at 1.
    rewrite (rwp_range p _ proc_read cb region (length region - L) (length region) f [x] (0%N, [])).
    - cbn [feed]. replace (fst x <? U64)%N with true by (symmetry; apply N.ltb_lt; exact Hx).
      unfold proc_read. replace ((0 <? fst x) || (fst x =? 0))%N with true by (symmetry; lia).
      unfold ret, frev. cbn [rev_append]. destruct x; reflexivity.
    - lia.
    - lia.
    - replace (length region - (length region - L)) with L by lia.
      replace (length region - L) with (length (encode p l' ++ pre)) by lia.
      rewrite EN, TB1, app_assoc.
      rewrite skipn_app, skipn_all, Nat.sub_diag. cbn [skipn app].
      rewrite <- EL at 1. rewrite firstn_all. cbn [encode_from]. unfold tail_bytes.
      replace (fst x - f <=? MAXD)%N with true by (symmetry; apply N.leb_le; exact Hd). cbn [fst]. rewrite app_nil_r. reflexivity.
    - cbn [ok_from]. repeat split; try assumption. }
  erewrite mbind_ok by exact FR. reflexivity.
Qed.

End LastLine.

Section Total.
Variables (fs:fsys) (sr:series) (p:nat) (hdr ihdr:list byte) (l:list line).
Hypothesis R : RepH fs sr p hdr ihdr l.
Notation L := (p + 2).



(* ByteSeries::last_line: the last appended line, or NoData for an empty series *)
Theorem last_line_ok :
  series_last_line sr fs = (fs, match last_opt l with Some x => Ok x | None => Err ENoData end).
Proof.
  destruct R as [RD W _ _]. unfold series_last_line.
  rewrite (rd_p _ _ _ _ _ _ _ _ RD), (rd_len _ _ _ _ _ _ _ _ RD).
  apply (last_line_of_ok p fs _ _ _ hdr l (rd_file _ _ _ _ _ _ _ _ RD) W (rd_ix_last _ _ _ _ _ _ _ _ RD)).
Qed.

(* ---- C19: no panic, no exhausted loop bound, for every argument ---- *)
Theorem read_all_returns lo hi : returns (read_all sr lo hi fs).
Proof. destruct (read_all_ok fs sr p hdr ihdr l R lo hi) as [E|[_ E]]; rewrite E; exact I. Qed.

Theorem read_first_n_returns n lo hi : returns (read_first_n sr n lo hi fs).
Proof.
  destruct (N.eq_dec n 0) as [->|Hn]; [unfold read_first_n; cbn; exact I|].
  destruct (read_first_n_ok fs sr p hdr ihdr l R n lo hi ltac:(lia)) as [E|[_ E]]; rewrite E; exact I.
Qed.

Theorem n_lines_returns lo hi : returns (n_lines_between sr lo hi fs).
Proof.
  destruct (n_lines_ok fs sr p hdr ihdr l R lo hi) as [(k & E & _)|[[_ E]|(_ & _ & E)]]; rewrite E; exact I.
Qed.

Theorem read_n_returns n lo hi : returns (read_n sr n lo hi fs).
Proof.
  pose proof (rh_down _ _ _ _ _ _ R) as RDn.
  destruct (N.eq_dec n 0) as [->|Hn].
  { unfold read_n. rewrite RDn. cbn. exact I. }
  destruct (read_n_ok fs sr p hdr ihdr l R n lo hi RDn ltac:(lia)) as [(b & _ & E & _)|[_ E]]; rewrite E; exact I.
Qed.

Theorem last_line_returns : returns (series_last_line sr fs).
Proof. rewrite last_line_ok. destruct (last_opt l); exact I. Qed.

Theorem push_returns ts pay : (ts < 2^64)%N -> returns (push_line sr ts pay fs).
Proof.
  intros Hts. pose proof (push_line_ok fs sr p hdr ihdr l ts pay R Hts) as H.
  destruct (accepts p l ts pay).
  - destruct H as (fs' & s' & E & _). rewrite E. exact I.
  - destruct H as (e & E). rewrite E. exact I.
Qed.

Theorem len_returns : exists k, data_len_lines (s_data sr) = Ok k.
Proof. eexists. apply (len_ok fs sr p hdr ihdr l R). Qed.
End Total.
