(* C05 / C04 for every payload size: the tail repair of a data file cut at any byte length, under the one condition
   that no continuation slot of a section header looks like a marker line (nm_sec: vacuous for payload sizes >= 4;
   for 0..3 its failure is the known finding D6). *)
From Coq Require Import List NArith ZArith Lia Bool Arith ZifyBool ZifyN ZifyNat Sorted.
From Coq Require Import Strings.Byte.
Require Import BS.Bytes BS.Common BS.CommonFacts BS.Api BS.Layout BS.Format BS.FormatFacts BS.Spec BS.SpecStep BS.Sections.
Require Import BS.FS BS.FSFacts BS.Meta BS.MetaFacts BS.Header BS.Reader BS.Index BS.Data BS.DataFacts BS.Seek BS.Series BS.SeriesFacts BS.TotalFacts.
Require Import BS.ExtractFacts BS.LastMetaFacts BS.HeaderFacts BS.OpenFacts BS.TornFacts BS.ReadAllFacts.
Require BSgen.Consts.
Import ListNotations.
Close Scope N_scope. Open Scope nat_scope.
Arguments N.add : simpl never. Arguments N.mul : simpl never. Arguments N.sub : simpl never.
Arguments N.ltb : simpl never. Arguments N.leb : simpl never. Arguments N.eqb : simpl never.
Arguments N.div : simpl never. Arguments N.modulo : simpl never.

Section Gen.
Variable p : nat.
Notation L := (p + 2).
Notation K := (Layout.K p).

Lemma K_ge_2 : 2 <= K. Proof. unfold Layout.K. lia. Qed.
Lemma MSK : metainfo_size p = N.of_nat (K * L).
Proof. unfold metainfo_size, line_size. rewrite K_eq. lia. Qed.

Lemma fake_len' : length (fake p) = L.
Proof. unfold fake. rewrite app_length, repeat_length. cbn [length]. lia. Qed.

(* ---- the last slots of an encoding ---- *)
Lemma skipn_app_ge {A} (a b:list A) n : length a <= n -> skipn n (a ++ b) = skipn (n - length a) b.
Proof. intros H. rewrite skipn_app, skipn_all2 by exact H. reflexivity. Qed.

(* the slots of a non-empty encoding end with the slots of its last section *)
Lemma slots_last_section l : wf_series p l -> l <> [] ->
  exists Sp s, concat (map (sslots p) (secs_of l)) = Sp ++ sslots p s /\ In s (secs_of l) /\ sec_ok p s.
Proof.
  intros W NE. pose proof (secs_good p l W) as G.
  assert (SN : secs_of l <> []) by (destruct l as [|x t]; [contradiction|rewrite secs_of_cons; discriminate]).
  destruct (exists_last SN) as (ss0 & s & Ess). exists (concat (map (sslots p) ss0)), s.
  rewrite Ess, map_app, concat_app. cbn [map concat]. rewrite app_nil_r. split; [reflexivity|].
  split; [apply in_or_app; right; left; reflexivity|].
  rewrite Ess in G. apply good_app_inv in G. destruct G as [_ Gs]. cbn [good_secs] in Gs. apply Gs.
Qed.

(* the last q <= K - 1 slots of a non-empty encoding are not marker lines *)
Lemma tail_nonmarkers l q : wf_series p l -> l <> [] -> Forall (nm_sec p) (secs_of l) -> q <= K - 1 ->
  exists A T, encode p l = A ++ concat T /\ length T = q /\ Forall (fun x => length x = L) T /\ Forall nonmarker T
              /\ length A mod L = 0 /\ (K + 1 - q) * L <= length A.
Proof.
  intros W NE NM Hq. destruct (encode_slots p l W) as [ES FS].
  destruct (slots_last_section l W NE) as (Sp & s & ESl & INs & OKs).
  set (S := concat (map (sslots p) (secs_of l))) in *.
  destruct s as [f ls]. pose proof OKs as ((pay & r & Els) & F & _).
  assert (NMf : Forall nonmarker (Layout.sec_got p f)).
  { rewrite Forall_forall in NM. apply (NM (f, ls) INs). }
  assert (BN : Forall nonmarker (map (fun y => enc_line (fst y - f) (snd y)) ls)).
  { apply body_nonmarkers. eapply Forall_impl; [|exact F]. intros y (_ & H & _). exact H. }
  assert (LS : length (sslots p (f, ls)) = K + length ls) by apply sslots_count.
  assert (Lls : 1 <= length ls) by (rewrite Els; cbn [length]; lia).
  set (n := length S).
  assert (Ln : n = length Sp + K + length ls) by (unfold n; rewrite ESl, app_length, LS; lia).
  exists (concat (firstn (n - q) S)), (skipn (n - q) S).
  assert (FSk : Forall (fun x => length x = L) (skipn (n - q) S)) by (apply Forall_skipn'; exact FS).
  assert (FFi : Forall (fun x => length x = L) (firstn (n - q) S)) by (apply Forall_firstn; exact FS).
  split; [rewrite ES, <- concat_app, firstn_skipn; reflexivity|]. split; [rewrite skipn_length; fold n; lia|].
  split; [exact FSk|]. split.
  - (* they lie in the continuation slots and the lines of the last section *)
    rewrite ESl, skipn_app_ge by lia.
    unfold sslots. cbn [fst snd]. unfold Layout.sec_slots. cbn [app].
    replace (n - q - length Sp) with (2 + (K + length ls - q - 2)) by (unfold Layout.K in *; lia).
    cbn [Nat.add skipn]. apply Forall_skipn'. apply Forall_app. split; assumption.
  - rewrite (concat_length_uniform L) by exact FFi. rewrite firstn_length, Nat.min_l by (fold n; lia). split; [apply Nat.mod_mul; lia|].
    apply Nat.mul_le_mono_r. lia.
Qed.

Lemma pairs_cons (a b:slot) (t:list slot) : pairs (a :: b :: t) = (a, b) :: pairs (b :: t).
Proof. reflexivity. Qed.

Lemma position_skip_nonmarkers : forall (N:list slot) (rest:list slot), Forall nonmarker N -> rest <> [] ->
  position (fun ab : slot * slot => Meta.is_marker (fst ab) && Meta.is_marker (snd ab)) (pairs (N ++ rest))
  = option_map (N.add (N.of_nat (length N))) (position (fun ab : slot * slot => Meta.is_marker (fst ab) && Meta.is_marker (snd ab)) (pairs rest)).
Proof.
  induction N as [|x t IH]; intros rest F NE.
  - cbn [app length]. destruct (position _ (pairs rest)); reflexivity.
  - inversion F as [|? ? Hx Ft]; subst. unfold nonmarker in Hx. cbn [app].
    destruct (t ++ rest) as [|y u] eqn:E; [destruct t; [cbn in E; contradiction|discriminate]|].
    rewrite pairs_cons. cbn [position fst snd]. rewrite Hx. cbn [andb]. rewrite <- E, (IH rest Ft NE).
    destruct (position _ (pairs rest)); cbn [option_map length]; [f_equal; lia|reflexivity].
Qed.

(* the tail check on an intact file: nothing found, when the continuation slots of the last section are no markers *)
Theorem tail_clean_nm l : wf_series p l -> l <> [] -> Forall (nm_sec p) (secs_of l) -> tail_clean p (encode p l).
Proof.
  intros W NE NM. pose proof K_ge_2 as K2.
  destruct (tail_nonmarkers l (K - 1) W NE NM ltac:(lia)) as (A & T & EA & LT & FT & NT & Am & AK).
  (* one more slot in front *)
  destruct (aligned_split L (length A / L) A) as (ls & EAl & FA & NA).
  { pose proof (Nat.div_mod (length A) L ltac:(lia)). lia. }
  assert (LNE : ls <> []).
  { intros ->. cbn [concat] in EAl. subst A. cbn [length] in AK. nia. }
  destruct (exists_last LNE) as (ls' & X & Els). rewrite Els in EAl, FA.
  apply Forall_app in FA. destruct FA as [Fls' FX]. apply Forall_inv in FX.
  rewrite concat_app in EAl. cbn [concat] in EAl. rewrite app_nil_r in EAl.
  unfold tail_clean, tail_pairs. rewrite MSK.
  assert (LC : length (concat T) = (K - 1) * L) by (rewrite (concat_length_uniform L) by exact FT; rewrite LT; reflexivity).
  assert (SLC : slice (len (encode p l) - N.of_nat (K * L)) (len (encode p l)) (encode p l) = X ++ concat T).
  { rewrite EA, EAl. unfold slice. rewrite drop_skipn, take_firstn. rewrite <- !app_assoc.
    replace (N.to_nat (len (concat ls' ++ X ++ concat T) - N.of_nat (K * L))) with (length (concat ls'))
      by (unfold len; rewrite !app_length, FX, LC; nia).
    rewrite skipn_app, skipn_all, Nat.sub_diag. cbn [skipn app].
    replace (N.to_nat (len (concat ls' ++ X ++ concat T) - (len (concat ls' ++ X ++ concat T) - N.of_nat (K * L))))
      with (length (X ++ concat T)) by (unfold len; rewrite !app_length, FX, LC; nia).
    apply firstn_all. }
  rewrite SLC. fold (fake p).
  replace ((X ++ concat T) ++ fake p) with (concat (X :: T ++ [fake p])).
  2:{ cbn [concat]. rewrite concat_app. cbn [concat]. rewrite app_nil_r, <- app_assoc. reflexivity. }
  rewrite chunks_concat; [|lia|constructor; [exact FX|apply Forall_app; split; [exact FT|constructor; [apply fake_len'|constructor]]]].
  (* T is K-1 >= 1 non-marker slots *)
  destruct T as [|t0 T']; [cbn [length] in LT; lia|]. cbn [app]. rewrite pairs_cons. cbn [position fst snd].
  inversion NT as [|? ? Ht0 NT']; subst. unfold nonmarker in Ht0. rewrite Ht0, andb_false_r.
  change (t0 :: T' ++ [fake p]) with ((t0 :: T') ++ [fake p]).
  rewrite (position_skip_nonmarkers (t0 :: T') [fake p] NT ltac:(discriminate)). reflexivity.
Qed.

(* ---- where the cut falls, any payload size ---- *)
(* what is left after the encoding of k lines: nothing, or the first j slots (1 <= j <= K) of the header the next line opens *)
Definition extra_gen (X:list byte) : Prop :=
  X = [] \/ exists f j, 1 <= j /\ j <= K /\ X = concat (firstn j (Layout.sec_slots p f)).

Lemma cut_position_gen : forall l, wf_series p l -> forall c, c <= length (encode p l) ->
  exists k X, k <= length l /\ extra_gen X
    /\ firstn (c / L * L) (encode p l) = encode p (firstn k l) ++ X
    /\ (k < length l -> c < length (encode p (firstn (S k) l))).
Proof.
  intros l. induction l as [|x l0 IH] using rev_ind; intros W c Hc.
  - cbn [encode encode_from length] in Hc. assert (c = 0) by lia. subst c. exists 0, []. split; [cbn; lia|]. split; [left; reflexivity|].
    split; [rewrite Nat.div_0_l by lia; reflexivity|cbn [length]; lia].
  - assert (W0 : wf_series p l0).
    { destruct W as [SS F]. split; [rewrite map_app in SS; apply sorted_app_inv in SS; apply SS|apply Forall_app in F; apply F]. }
    assert (Hp : length (snd x) = p).
    { destruct W as [_ F]. rewrite Forall_forall in F. apply F. apply in_or_app. right. left. reflexivity. }
    pose proof (encode_snoc p l0 x) as EN.
    pose proof (encode_length p l0 (wf_payloads p l0 W0)) as EL0.
    set (s0 := slots_from p None l0) in *.
    set (tb := fst (tail_bytes p (full_after p None l0) x)) in *.
    destruct (Nat.le_gt_cases c (length (encode p l0))) as [Le|Gt].
    + destruct (IH W0 c Le) as (k & X & Hk & EX & FE & MX).
      exists k, X. split; [rewrite app_length; cbn [length]; lia|]. split; [exact EX|].
      assert (ML : c / L * L <= length (encode p l0)).
      { pose proof (Nat.div_mod c L ltac:(lia)). pose proof (Nat.mod_upper_bound c L ltac:(lia)). lia. }
      assert (TBpos : 1 <= length tb).
      { pose proof (tail_bytes_rule p (full_after p None l0) x Hp) as TR. fold tb in TR.
        destruct (full_after p None l0) as [f|]; [destruct (fst x - f <=? 65534)%N|]; nia. }
      split.
      * rewrite EN, firstn_app. replace (c / L * L - length (encode p l0)) with 0 by lia. cbn [firstn]. rewrite app_nil_r.
        rewrite firstn_app. replace (k - length l0) with 0 by lia. cbn [firstn]. rewrite app_nil_r. exact FE.
      * intros _. destruct (Nat.lt_ge_cases k (length l0)) as [Lt|Ge].
        -- rewrite firstn_app. replace (S k - length l0) with 0 by lia. cbn [firstn]. rewrite app_nil_r. apply MX. exact Lt.
        -- assert (k = length l0) by lia. subst k. rewrite firstn_all2 by (rewrite app_length; cbn [length]; lia).
           rewrite EN, app_length. lia.
    + rewrite EN, app_length in Hc.
      assert (DM := Nat.div_mod c L ltac:(lia)). assert (MU := Nat.mod_upper_bound c L ltac:(lia)).
      assert (ELn : forall d, length (enc_line d (snd x)) = L) by (intros d; apply enc_line_length; exact Hp).
      assert (TB3 : (exists d, tb = enc_line d (snd x)) \/ exists f, tb = enc_section p f ++ enc_line 0 (snd x)).
      { unfold tb, tail_bytes. destruct (full_after p None l0) as [f|]; [destruct (fst x - f <=? MAXD)%N|]; cbn [fst]; eauto. }
      set (m := c / L) in *.
      assert (FULL : c = length (encode p l0) + length tb ->
              exists k X, k <= length (l0 ++ [x]) /\ extra_gen X /\ firstn (m * L) (encode p l0 ++ tb) = encode p (firstn k (l0 ++ [x])) ++ X
                /\ (k < length (l0 ++ [x]) -> c < length (encode p (firstn (S k) (l0 ++ [x]))))).
      { intros E. exists (length (l0 ++ [x])), []. split; [lia|]. split; [left; reflexivity|].
        rewrite firstn_all, app_nil_r, EN. split; [|lia].
        assert (Q : exists q, length (encode p l0) + length tb = q * L).
        { destruct TB3 as [[d T]|[f T]]; rewrite T; rewrite ?app_length, ?enc_section_length, ?ELn, EL0; [exists (s0 + 1)|exists (s0 + K + 1)]; lia. }
        destruct Q as [q Q]. assert (m * L = length (encode p l0) + length tb).
        { rewrite Q. unfold m. rewrite E, Q, Nat.div_mul by lia. reflexivity. }
        rewrite firstn_all2 by (rewrite app_length; lia). reflexivity. }
      assert (PART : forall X, extra_gen X -> firstn (m * L - length (encode p l0)) tb = X -> length (encode p l0) <= m * L -> c < length (encode p l0) + length tb ->
              exists k X, k <= length (l0 ++ [x]) /\ extra_gen X /\ firstn (m * L) (encode p l0 ++ tb) = encode p (firstn k (l0 ++ [x])) ++ X
                /\ (k < length (l0 ++ [x]) -> c < length (encode p (firstn (S k) (l0 ++ [x]))))).
      { intros X EX FX GE Lt. exists (length l0), X. split; [rewrite app_length; cbn [length]; lia|]. split; [exact EX|]. split.
        - rewrite firstn_app, firstn_all2 by exact GE. rewrite firstn_app, firstn_all, Nat.sub_diag. cbn [firstn]. rewrite app_nil_r. f_equal. exact FX.
        - intros _. rewrite firstn_all2 by (rewrite app_length; cbn [length]; lia). rewrite EN, app_length. exact Lt. }
      rewrite EN.
      (* m = s0 + j with 0 <= j *)
      assert (Mge : s0 <= m).
      { unfold m. apply Nat.div_le_lower_bound; [lia|]. rewrite Nat.mul_comm. lia. }
      set (j := m - s0).
      assert (Em : m * L - length (encode p l0) = j * L) by (rewrite EL0; unfold j; nia).
      assert (GE : length (encode p l0) <= m * L) by (rewrite EL0; nia).
      destruct TB3 as [[d T]|[f T]].
      * assert (LT1 : length tb = L) by (rewrite T; apply ELn). rewrite LT1 in Hc.
        destruct (Nat.eq_dec c (length (encode p l0) + L)) as [E|NE]; [apply FULL; lia|].
        assert (j = 0).
        { unfold j. assert (m = s0); [|lia]. unfold m. symmetry. apply (Nat.div_unique c L s0 (c - s0 * L)); lia. }
        apply (PART []); [left; reflexivity| |exact GE|lia]. rewrite Em, H. reflexivity.
      * assert (LTK : length tb = (K + 1) * L) by (rewrite T, app_length, enc_section_length, ELn; lia). rewrite LTK in Hc.
        destruct (Nat.eq_dec c (length (encode p l0) + (K + 1) * L)) as [E|NE]; [apply FULL; lia|].
        assert (Jle : j <= K).
        { unfold j. assert (m < s0 + K + 1); [|lia]. unfold m. apply Nat.div_lt_upper_bound; [lia|]. nia. }
        destruct (Nat.eq_dec j 0) as [J0|JN].
        -- apply (PART []); [left; reflexivity| |exact GE|lia]. rewrite Em, J0. reflexivity.
        -- apply (PART (concat (firstn j (Layout.sec_slots p f)))); [right; exists f, j; repeat split; lia| |exact GE|lia].
           rewrite Em, T. unfold enc_section.
           rewrite firstn_app. rewrite (concat_length_uniform L) by apply sec_slots_lengths. rewrite sec_slots_count.
           replace (j * L - K * L) with 0 by nia. cbn [firstn]. rewrite app_nil_r.
           apply (firstn_concat_uniform L). apply sec_slots_lengths.
Qed.

Lemma wf_firstn' k l : wf_series p l -> wf_series p (firstn k l).
Proof.
  intros [SS F]. split; [|apply Forall_firstn; exact F]. rewrite <- firstn_map.
  clear -SS. revert k. induction SS as [|a l1 S1 IHS Hall]; intros k; [rewrite firstn_nil; constructor|].
  destruct k; cbn [firstn]; constructor; [apply IHS|apply Forall_firstn; exact Hall].
Qed.

Lemma encode_prefix_min' k l : wf_series p l -> 1 <= k -> k <= length l -> (K + 1) * L <= length (encode p (firstn k l)).
Proof.
  intros W H1 H2. pose proof (wf_firstn' k l W) as Wf.
  destruct l as [|x t]; [cbn [length] in H2; lia|]. destruct k as [|k']; [lia|]. cbn [firstn] in *.
  rewrite (encode_length p _ (wf_payloads p _ Wf)). cbn [slots_from]. nia.
Qed.

Lemma map_fst_ents : forall (ss:list sect) i, map fst (ents p i ss) = map fst ss.
Proof. induction ss as [|[f ls] t IH]; intros i; cbn [ents map fst]; [reflexivity|]. rewrite IH. reflexivity. Qed.

(* the section timestamps of a prefix of the lines are section timestamps of the whole *)
Lemma secs_ts_prefix k l : wf_series p l -> forall s, In s (secs_of (firstn k l)) -> exists s', In s' (secs_of l) /\ fst s' = fst s.
Proof.
  intros W s Hs.
  assert (E1 : map fst (secs_from p None 0 (firstn k l)) = map fst (secs_of (firstn k l))).
  { rewrite secs_from_sections. apply map_fst_ents. }
  assert (E2 : map fst (secs_from p None 0 l) = map fst (secs_of l)).
  { rewrite secs_from_sections. apply map_fst_ents. }
  assert (IN1 : In (fst s) (map fst (secs_from p None 0 (firstn k l)))) by (rewrite E1; apply in_map; exact Hs).
  pose proof (secs_from_app p (firstn k l) (skipn k l) None 0) as SP. rewrite firstn_skipn in SP.
  assert (IN2 : In (fst s) (map fst (secs_from p None 0 l))) by (rewrite SP, map_app; apply in_or_app; left; exact IN1).
  rewrite E2 in IN2. apply in_map_iff in IN2. destruct IN2 as (s' & Es & Is). exists s'. split; assumption.
Qed.
Lemma nm_prefix k l : wf_series p l -> Forall (nm_sec p) (secs_of l) -> Forall (nm_sec p) (secs_of (firstn k l)).
Proof.
  intros W NM. apply Forall_forall. intros s Hs. destruct (secs_ts_prefix k l W s Hs) as (s' & Is & Es).
  rewrite Forall_forall in NM. specialize (NM s' Is). unfold nm_sec in *. rewrite <- Es. exact NM.
Qed.

(* FileWithInlineMeta::new on a data file cut at any byte length, any payload size *)
Theorem fwim_new_torn_gen fs o hdr l c : wf_series p l -> Forall (nm_sec p) (secs_of l) -> c <= length (encode p l) ->
  file_is fs o hdr (firstn c (encode p l)) ->
  exists fs' k, fwim_new o p fs = (fs', Ok tt) /\ k <= length l
    /\ file_is fs' o hdr (encode p (firstn k l))
    /\ length (encode p (firstn k l)) <= c
    /\ (k < length l -> c < length (encode p (firstn (S k) l)))
    /\ (forall g, g <> of_name o -> fs_get fs' g = fs_get fs g).
Proof.
  intros W NM Hc FI. remember (firstn c (encode p l)) as R eqn:ER. pose proof K_ge_2 as K2.
  assert (LR : length R = c) by (rewrite ER, firstn_length; lia).
  unfold fwim_new. erewrite mbind_ok by (apply (of_len_ok _ _ _ _ FI)). unfold len. rewrite LR.
  destruct (N.of_nat c =? 0)%N eqn:Z.
  { apply N.eqb_eq in Z. assert (C0 : c = 0) by lia.
    assert (RN : R = []) by (destruct R; [reflexivity|cbn [length] in LR; lia]).
    exists fs, 0. split; [reflexivity|]. split; [lia|].
    split; [cbn [firstn encode encode_from]; rewrite <- RN; exact FI|]. split; [cbn; lia|]. split; [|intros; reflexivity].
    intros Hk. pose proof (encode_prefix_min' 1 l W ltac:(lia) ltac:(lia)). nia. }
  apply N.eqb_neq in Z.
  destruct (cut_position_gen l W c Hc) as (k & X & Hk & EX & FE & MX).
  set (m := c / L) in *. set (E := encode p (firstn k l)) in *.
  assert (DM := Nat.div_mod c L ltac:(lia)). assert (MU := Nat.mod_upper_bound c L ltac:(lia)). fold m in DM.
  assert (ML : m * L <= c) by (rewrite (Nat.mul_comm m L); lia).
  assert (LE : length E + length X = m * L).
  { apply (f_equal (@length byte)) in FE. rewrite firstn_length, app_length in FE. lia. }
  assert (S1 : exists fs1, repair_incomplete_last_write o p fs = (fs1, Ok tt) /\ file_is fs1 o hdr (E ++ X)
                 /\ (forall g, g <> of_name o -> fs_get fs1 g = fs_get fs g)).
  { unfold repair_incomplete_last_write. erewrite mbind_ok by (apply (of_len_ok _ _ _ _ FI)). unfold len, line_size. rewrite LR.
    rewrite <- Nat2N.inj_mod. destruct (0 <? N.of_nat (c mod L))%N eqn:C.
    - destruct (of_set_len_trunc fs o hdr R (m * L) FI ltac:(lia)) as (fs1 & E1 & F1 & O1).
      exists fs1. replace (N.of_nat c - N.of_nat (c mod L))%N with (N.of_nat (m * L)) by lia. split; [exact E1|]. split; [|exact O1].
      rewrite ER, firstn_firstn, Nat.min_l in F1 by lia. rewrite FE in F1. exact F1.
    - apply N.ltb_ge in C. exists fs. split; [reflexivity|]. split; [|intros; reflexivity].
      assert (c = m * L) by lia. rewrite <- FE. rewrite <- H. rewrite <- ER. exact FI. }
  destruct S1 as (fs1 & E1 & F1 & O1). erewrite mbind_ok by exact E1.
  assert (LEX : len (E ++ X) = N.of_nat (m * L)) by (unfold len; rewrite app_length; lia).
  (* the length of X *)
  assert (LXj : X = [] \/ exists f j, 1 <= j /\ j <= K /\ X = concat (firstn j (Layout.sec_slots p f)) /\ length X = j * L).
  { destruct EX as [->|(f & j & J1 & J2 & EXj)]; [left; reflexivity|right]. exists f, j. repeat split; try assumption.
    rewrite EXj, (concat_length_uniform L) by (apply Forall_firstn; apply sec_slots_lengths).
    rewrite firstn_length, sec_slots_count, Nat.min_l by lia. reflexivity. }
  (* step 2 *)
  destruct (N.of_nat (m * L) <=? N.of_nat (K * L))%N eqn:C2.
  { apply N.leb_le in C2. assert (Hm : m <= K) by nia.
    assert (k = 0).
    { destruct (Nat.eq_dec k 0) as [->|NZ]; [reflexivity|]. pose proof (encode_prefix_min' k l W ltac:(lia) Hk). fold E in H. nia. }
    subst k. destruct (of_set_len_trunc fs1 o hdr (E ++ X) 0 F1 ltac:(lia)) as (fs2 & E2 & F2 & O2).
    change (N.of_nat 0) with 0%N in E2.
    assert (OM : repaired_is_only_meta o p fs1 = (fs2, Ok true)).
    { unfold repaired_is_only_meta. erewrite mbind_ok by (apply (of_len_ok _ _ _ _ F1)). rewrite LEX, MSK.
      replace (N.of_nat (m * L) <=? N.of_nat (K * L))%N with true by (symmetry; apply N.leb_le; exact C2).
      erewrite mbind_ok by exact E2. reflexivity. }
    erewrite mbind_ok by exact OM. cbv iota.
    exists fs2, 0. split; [reflexivity|]. split; [lia|]. cbn [firstn] in *. split; [exact F2|]. split; [cbn; lia|].
    split; [exact MX|]. intros g Hg. rewrite O2, O1 by exact Hg. reflexivity. }
  assert (OM : repaired_is_only_meta o p fs1 = (fs1, Ok false)).
  { unfold repaired_is_only_meta. erewrite mbind_ok by (apply (of_len_ok _ _ _ _ F1)). rewrite LEX, MSK, C2. reflexivity. }
  erewrite mbind_ok by exact OM. cbv iota.
  apply N.leb_gt in C2. assert (Hm : K + 1 <= m) by nia.
  assert (KPOS : 1 <= k).
  { destruct (Nat.eq_dec k 0) as [->|NZ]; [|lia]. exfalso. unfold E in LE. cbn [firstn encode encode_from length] in LE.
    destruct LXj as [->|(f & j & J1 & J2 & _ & LX)]; [cbn [length] in LE; nia|]. rewrite LX in LE. nia. }
  assert (Wk : wf_series p (firstn k l)) by (apply wf_firstn'; exact W).
  assert (NEk : firstn k l <> []) by (destruct l; [cbn [length] in Hk; lia|destruct k; [lia|discriminate]]).
  assert (NMk : Forall (nm_sec p) (secs_of (firstn k l))) by (apply nm_prefix; assumption).
  assert (RPM : forall fsx b,
            (match position (fun ab : slot * slot => Meta.is_marker (fst ab) && Meta.is_marker (snd ab))
                     (pairs (chunks L (slice (len (E ++ X) - metainfo_size p) (len (E ++ X)) (E ++ X) ++ [pre0; pre1] ++ repeat x00 p))) with
             | Some i => exec of_set_len o (len (E ++ X) - metainfo_size p + i * line_size p) in ret true
             | None => ret false
             end) fs1 = (fsx, Ok b) ->
            removed_partial_meta_at_end o p fs1 = (fsx, Ok b)).
  { intros fsx b H. unfold removed_partial_meta_at_end. erewrite mbind_ok by (apply (of_len_ok _ _ _ _ F1)).
    replace (len (E ++ X) <? metainfo_size p)%N with false by (symmetry; apply N.ltb_ge; rewrite LEX, MSK; lia).
    erewrite mbind_ok by (apply (of_read_at_ok _ _ _ _ _ _ F1); rewrite LEX, MSK; lia).
    replace (len (E ++ X) - metainfo_size p + metainfo_size p)%N with (len (E ++ X)) by (rewrite LEX, MSK; lia).
    exact H. }
  destruct LXj as [->|(f & j & J1 & J2 & EXj & LX)].
  - (* a clean end *)
    pose proof (tail_clean_nm (firstn k l) Wk NEk NMk) as TC. fold E in TC.
    assert (RP : removed_partial_meta_at_end o p fs1 = (fs1, Ok false)).
    { apply RPM. rewrite app_nil_r. unfold tail_clean, tail_pairs in TC. rewrite TC. reflexivity. }
    erewrite mbind_ok by exact RP. cbv iota. rewrite app_nil_r in *.
    assert (LE3 : (K + 1) * L <= length E) by (cbn [length] in LE; nia).
    assert (RS : removed_start_of_meta_at_end o p fs1 = (fs1, Ok false)).
    { unfold removed_start_of_meta_at_end. erewrite mbind_ok by (apply (of_len_ok _ _ _ _ F1)).
      replace (len E <? metainfo_size p)%N with false by (symmetry; apply N.ltb_ge; rewrite MSK; unfold len; lia).
      erewrite mbind_ok; [reflexivity|]. apply (of_read_at_ok _ _ _ _ _ _ F1). rewrite MSK. unfold line_size, len. nia. }
    erewrite mbind_ok by exact RS.
    exists fs1, k. split; [reflexivity|]. split; [exact Hk|]. split; [exact F1|]. split; [fold E; cbn [length] in LE; lia|]. split; [exact MX|exact O1].
  - (* j slots of a section header: removed *)
    (* the K - j slots before it are no markers *)
    destruct (tail_nonmarkers (firstn k l) (K - j) Wk NEk NMk ltac:(lia)) as (A & T & EA & LT & FT & NT & Am & AK). fold E in EA.
    set (H := firstn j (Layout.sec_slots p f)) in *.
    assert (FH : Forall (fun x => length x = L) H) by (apply Forall_firstn; apply sec_slots_lengths).
    assert (LH : length H = j) by (unfold H; rewrite firstn_length, sec_slots_count; lia).
    assert (LCT : length (concat T) = (K - j) * L) by (rewrite (concat_length_uniform L) by exact FT; rewrite LT; reflexivity).
    assert (WIN : slice (len (E ++ X) - metainfo_size p) (len (E ++ X)) (E ++ X) = concat (T ++ H)).
    { rewrite EXj, EA, MSK. fold H. unfold slice. rewrite drop_skipn, take_firstn. rewrite <- !app_assoc.
      replace (N.to_nat (len (A ++ concat T ++ concat H) - N.of_nat (K * L))) with (length A)
        by (unfold len; rewrite !app_length, LCT, (concat_length_uniform L H FH), LH; nia).
      rewrite skipn_app, skipn_all, Nat.sub_diag. cbn [skipn app].
      replace (N.to_nat (len (A ++ concat T ++ concat H) - (len (A ++ concat T ++ concat H) - N.of_nat (K * L))))
        with (length (concat T ++ concat H)) by (unfold len; rewrite !app_length, LCT, (concat_length_uniform L H FH), LH; nia).
      rewrite firstn_all, concat_app. reflexivity. }
    (* the header starts with two marker slots (the second may be the fake one) *)
    assert (HM : exists h0 hr, H ++ [fake p] = h0 :: hr /\ Meta.is_marker h0 = true
                   /\ exists h1 hr', hr = h1 :: hr' /\ Meta.is_marker h1 = true).
    { unfold H, Layout.sec_slots. destruct (Layout.sec_slots_shape p f) as (Ma & Mb & _). rewrite <- is_marker_eq in Ma, Mb.
      destruct j as [|[|j']]; [lia| |].
      - cbn [firstn app]. exists (Layout.sec_a p f), [fake p]. split; [reflexivity|]. split; [exact Ma|]. exists (fake p), []. split; reflexivity.
      - cbn [firstn app]. eexists _, _. split; [reflexivity|]. split; [exact Ma|]. eexists _, _. split; [reflexivity|exact Mb]. }
    destruct HM as (h0 & hr & EH & M0 & h1 & hr' & EH1 & M1).
    destruct (of_set_len_trunc fs1 o hdr (E ++ X) (length E) F1 ltac:(rewrite app_length; lia)) as (fs2 & E2 & F2 & O2).
    assert (RP : removed_partial_meta_at_end o p fs1 = (fs2, Ok true)).
    { apply RPM. rewrite WIN. fold (fake p).
      replace (concat (T ++ H) ++ fake p) with (concat (T ++ H ++ [fake p])).
      2:{ rewrite !concat_app. cbn [concat]. rewrite app_nil_r, app_assoc. reflexivity. }
      rewrite chunks_concat; [|lia|].
      2:{ apply Forall_app. split; [exact FT|]. apply Forall_app. split; [exact FH|constructor; [apply fake_len'|constructor]]. }
      rewrite (position_skip_nonmarkers T (H ++ [fake p]) NT ltac:(rewrite EH; discriminate)).
      rewrite EH, EH1, pairs_cons. cbn [position fst snd]. rewrite M0, M1. cbn [andb option_map].
      replace (len (E ++ X) - metainfo_size p + (N.of_nat (length T) + 0) * line_size p)%N with (N.of_nat (length E))
        by (rewrite MSK, LEX, LT; unfold line_size; nia).
      erewrite mbind_ok by exact E2. reflexivity. }
    erewrite mbind_ok by exact RP. cbv iota.
    rewrite firstn_app_exact in F2.
    exists fs2, k. split; [reflexivity|]. split; [exact Hk|]. split; [exact F2|]. split; [fold E; lia|]. split; [exact MX|].
    intros g Hg. rewrite O2, O1 by exact Hg. reflexivity.
Qed.

Lemma sorted_nth_unique' (xs:list N) : StronglySorted N.lt xs -> forall i j a, nth_error xs i = Some a -> nth_error xs j = Some a -> i = j.
Proof.
  induction 1 as [|x xs SS IH Hall]; intros i j a Hi Hj; [destruct i; discriminate|].
  rewrite Forall_forall in Hall.
  destruct i as [|i'], j as [|j']; cbn [nth_error] in *.
  - reflexivity.
  - inversion Hi; subst a. apply nth_error_In in Hj. specialize (Hall _ Hj). lia.
  - inversion Hj; subst a. apply nth_error_In in Hi. specialize (Hall _ Hi). lia.
  - f_equal. eapply IH; eassumption.
Qed.

(* ---- C05 for every payload size ---- *)
Theorem data_open_torn_gen fs name header cb l c :
  let o := {| of_name := name ++ ext_data; of_off := len (outer header) |} in
  wf_series p l -> Forall (nm_sec p) (secs_of l) -> c <= length (encode p l) -> (len header <= 65535)%N -> (len (encode p l) < 2^64)%N ->
  fs_get fs (name ++ ext_data) = Some (outer header ++ firstn c (encode p l)) ->
  index_state fs name (sections p (encode p l)) ->
  exists fs' d k, data_open name o p cb fs = (fs', Ok d)
    /\ k <= length l /\ length (encode p (firstn k l)) <= c /\ (k < length l -> c < length (encode p (firstn (S k) l)))
    /\ RepD fs' d p (outer header) (outer []) (encode p (firstn k l)) (full_after p None (firstn k l)) (option_map fst (last_opt (firstn k l)))
    /\ of_name (d_file d) = name ++ ext_data /\ of_name (ix_file (d_index d)) = name ++ ext_index
    /\ (forall g, g <> name ++ ext_data -> g <> name ++ ext_index -> g <> name ++ ext_part -> fs_get fs' g = fs_get fs g)
    /\ (fs_get fs (name ++ ext_part) = None -> fs_get fs' (name ++ ext_part) = None).
Proof.
  intros o W NM Hc Hh H64 GD IS. pose proof K_ge_2 as K2'.
  assert (FI : file_is fs o (outer header) (firstn c (encode p l))) by (split; [exact GD|reflexivity]).
  destruct (fwim_new_torn_gen fs o (outer header) l c W NM Hc FI) as (fs1 & k & FW & Hk & F1 & LE1 & MX1 & O1).
  set (l' := firstn k l) in *.
  assert (W' : wf_series p l') by (apply wf_firstn'; exact W).
  assert (LM : last_meta_timestamp p (encode p l') = Ok (full_after p None l')).
  { apply last_meta_ok; [exact W'|]. apply nm_prefix; assumption. }
  assert (ND1 : of_name o <> name ++ ext_part).
  { cbn [o of_name]. intros Q. apply app_inv_head in Q. unfold ext_part, ext_index in Q. rewrite <- (app_nil_r ext_data) in Q at 1.
    rewrite <- !app_assoc in Q. apply app_inv_head in Q. discriminate. }
  assert (ND2 : of_name o <> name ++ ext_index) by (cbn [o of_name]; apply ext_data_index_neq).
  (* sections of the prefix and of the whole *)
  pose proof (sections_encode p l W) as SL. pose proof (sections_encode p l' W') as SL'.
  assert (SPLIT : secs_from p None 0 l = secs_from p None 0 l' ++ secs_from p (full_after p None l') (0 + slots_from p None l') (skipn k l)).
  { rewrite <- (firstn_skipn k l) at 1. fold l'. apply secs_from_app. }
  set (es' := secs_from p None 0 l') in *. set (rest := secs_from p (full_after p None l') (0 + slots_from p None l') (skipn k l)) in *.
  pose proof (encode_length p l' (wf_payloads p l' W')) as EL'.
  assert (FB' : Forall (fun e => (fst e < 2^64)%N /\ (snd e + N.of_nat ((Layout.K p + 1) * L) <= N.of_nat ((0 + slots_from p None l') * L))%N) es').
  { apply (secs_from_bounds p l' None 0). destruct W' as [_ F]. eapply Forall_impl; [|exact F]. intros a [H _]. exact H. }
  assert (FBL : Forall entry_ok (secs_from p None 0 l)).
  { pose proof (secs_from_bounds p l None 0 ltac:(destruct W as [_ F]; eapply Forall_impl; [|exact F]; intros a [H _]; exact H)) as Q.
    eapply Forall_impl; [|exact Q]. intros e [A1 A2]. split; [exact A1|].
    pose proof (encode_length p l (wf_payloads p l W)) as EL. unfold len in H64. rewrite EL in H64. lia. }
  (* the index: accepted or rebuilt *)
  assert (IDX : exists fs2 ix, mcatch (index_open name (if (len (encode p l') <? line_size p)%N then None else Some (len (encode p l') - line_size p)%N)
                                            (full_after p None l'))
                                     (fun _ => create_from_byteseries o p name) fs1 = (fs2, Ok ix)
            /\ ix = {| ix_file := {| of_name := name ++ ext_index; of_off := len (outer []) |};
                       ix_entries := es'; ix_last := option_map fst (last_opt es') |}
            /\ fs_get fs2 (name ++ ext_index) = Some (outer [] ++ enc_index es')
            /\ (forall g, g <> name ++ ext_index -> g <> name ++ ext_part -> fs_get fs2 g = fs_get fs1 g)
            /\ (fs_get fs1 (name ++ ext_part) = None -> fs_get fs2 (name ++ ext_part) = None)).
  { assert (PI : name ++ ext_part <> name ++ ext_index) by apply names_part_index.
    assert (REBUILD : forall fsx, (forall g, g <> name ++ ext_index -> fs_get fsx g = fs_get fs1 g) ->
              exists fs2 ix, create_from_byteseries o p name fsx = (fs2, Ok ix)
                /\ ix = {| ix_file := {| of_name := name ++ ext_index; of_off := len (outer []) |};
                           ix_entries := es'; ix_last := option_map fst (last_opt es') |}
                /\ fs_get fs2 (name ++ ext_index) = Some (outer [] ++ enc_index es')
                /\ (forall g, g <> name ++ ext_index -> g <> name ++ ext_part -> fs_get fs2 g = fs_get fs1 g)
                /\ fs_get fs2 (name ++ ext_part) = None).
    { intros fsx FR. assert (FDx : file_is fsx o (outer header) (encode p l')).
      { eapply file_is_other; [exact F1|]. apply FR. exact ND2. }
      destruct (create_from_byteseries_ok p fsx o (outer header) name l' W' FDx ND1 ND2) as (fs2 & ix & E & GI & IF & IE & IL & PN & OT).
      exists fs2, ix. split; [exact E|]. rewrite SL' in GI, IE, IL. split; [|split; [exact GI|split; [|exact PN]]].
      - destruct ix as [a b c0]. cbn [ix_file ix_entries ix_last] in *. subst. reflexivity.
      - intros g N1 N2. rewrite OT by assumption. apply FR. exact N1. }
    destruct IS as [ABS|[ci PRE]].
    - (* no index file *)
      assert (G1 : fs_get fs1 (name ++ ext_index) = None) by (rewrite O1 by (apply not_eq_sym; exact ND2); exact ABS).
      assert (IO : forall a b, index_open name a b fs1 = (fs1, Err ENotFound)).
      { intros a b. unfold index_open, fwh_open. unfold mbind at 1. unfold mbind at 1. unfold exists_file, fs_mem.
        unfold fs_get in G1. destruct (fs_raw fs1 (name ++ ext_index)); [discriminate|]. reflexivity. }
      destruct (REBUILD fs1 ltac:(intros; reflexivity)) as (fs2 & ix & E & A1 & A2 & A3 & A4).
      exists fs2, ix. split; [|split; [exact A1|split; [exact A2|split; [exact A3|intros _; exact A4]]]]. eapply mcatch_err_handled; [apply IO|exact E].
    - rewrite SL in PRE.
      assert (G1 : fs_get fs1 (name ++ ext_index) = Some (firstn ci (outer [] ++ enc_index (secs_from p None 0 l)))).
      { rewrite O1 by (apply not_eq_sym; exact ND2). exact PRE. }
      assert (CASE : l' = [] \/ exists x0 t0, l' = x0 :: t0) by (destruct l' as [|x0 t0]; [left; reflexivity|right; eauto]).
      destruct CASE as [EN|(x0 & t0 & El')].
      + (* no line survived: the index is emptied *)
        assert (ES0 : es' = []) by (unfold es'; rewrite EN; reflexivity).
        rewrite EN.
        replace (len (encode p []) <? line_size p)%N with true by (symmetry; apply N.ltb_lt; unfold line_size, len; cbn [encode encode_from length]; lia).
        destruct (index_open_prefix_empty fs1 name _ ci (full_after p None []) G1) as (fsa & r & IO & OA & RES).
        destruct r as [ix|er| |]; try contradiction.
        * destruct RES as [EI GI]. exists fsa, ix. split; [apply mcatch_ok; exact IO|]. rewrite ES0. split; [exact EI|]. split; [exact GI|].
          split; [intros g N1 N2; apply OA; exact N1|]. intros PNone. rewrite OA by exact PI. exact PNone.
        * destruct (REBUILD fsa OA) as (fs2 & ix & E & A1 & A2 & A3 & A4).
          exists fs2, ix. split; [|split; [exact A1|split; [exact A2|split; [exact A3|intros _; exact A4]]]]. eapply mcatch_err_handled; [exact IO|exact E].
      + 
        assert (NE' : l' <> []) by (rewrite El'; discriminate).
        destruct (full_after_cons_none p x0 t0) as [t FA]. rewrite <- El' in FA.
        pose proof (slots_from_lines p l' None) as SLN.
        assert (JPOS : 1 <= length es') by (unfold es'; rewrite El'; cbn [secs_from length]; lia).
        assert (LEN3 : (K + 1) * L <= length (encode p l')).
        { rewrite EL', SLN. assert (1 <= length l') by (rewrite El'; cbn [length]; lia). fold es'. nia. }
        replace (len (encode p l') <? line_size p)%N with false by (symmetry; apply N.ltb_ge; unfold len, line_size; nia).
        rewrite FA.
        assert (LASTT : forall e, nth_error (secs_from p None 0 l) (length es' - 1) = Some e -> fst e = t).
        { intros e NT. rewrite SPLIT, nth_error_app1 in NT by lia.
          pose proof (last_sec_full p l' None 0) as LS. rewrite FA in LS. fold es' in LS.
          destruct (exists_last (l:=es')) as (e0 & e1 & Ee); [intros Q; rewrite Q in JPOS; cbn [length] in JPOS; lia|].
          rewrite Ee, last_opt_snoc in LS. rewrite Ee, app_length in NT. cbn [length] in NT.
          rewrite nth_error_app2 in NT by lia. replace (length e0 + 1 - 1 - length e0) with 0 in NT by lia. cbn [nth_error] in NT.
          inversion NT; subst e1. inversion LS. reflexivity. }
        destruct (index_open_prefix fs1 name (secs_from p None 0 l) (length es') ci (len (encode p l') - line_size p)%N t FBL JPOS
                    ltac:(rewrite SPLIT, app_length; lia)) as (fsa & r & IO & OA & RES); try exact G1; try exact LASTT.
        * (* entries of the surviving data *)
          intros i e NT Hi. rewrite SPLIT, nth_error_app1 in NT by exact Hi.
          assert (INe : In e es') by (eapply nth_error_In; exact NT).
          rewrite Forall_forall in FB'. destruct (FB' e INe) as [_ Hb]. split.
          -- unfold len, line_size. rewrite EL'. nia.
          -- intros Et. 
             assert (NTL : nth_error es' (length es' - 1) = Some e \/ True) by (right; exact I).
             pose proof (secs_from_sorted p l' None 0 (proj1 W')) as SRT. fold es' in SRT.
             destruct (exists_last (l:=es')) as (e0 & e1 & Ee); [intros Q; rewrite Q in JPOS; cbn [length] in JPOS; lia|].
             assert (N1 : nth_error es' (length es' - 1) = Some e1).
             { rewrite Ee, app_length. cbn [length]. rewrite nth_error_app2 by lia. replace (length e0 + 1 - 1 - length e0) with 0 by lia. reflexivity. }
             assert (T1 : fst e1 = t).
             { apply LASTT. rewrite SPLIT, nth_error_app1 by lia. exact N1. }
             apply (sorted_nth_unique' (map fst es') SRT i (length es' - 1) t).
             ++ rewrite nth_error_map, NT. cbn [option_map]. f_equal. exact Et.
             ++ rewrite nth_error_map, N1. cbn [option_map]. f_equal. exact T1.
        * (* entries of sections that did not survive *)
          intros i e NT Hi. rewrite SPLIT, nth_error_app2 in NT by exact Hi.
          assert (INe : In e rest) by (eapply nth_error_In; exact NT).
          pose proof (secs_from_lower p (skipn k l) (full_after p None l') (0 + slots_from p None l')) as LOW. fold rest in LOW.
          rewrite Forall_forall in LOW. destruct (LOW e INe) as [Hoff (y & Hy & Ey)]. split.
          -- unfold len, line_size. rewrite EL'. cbn [Nat.add] in Hoff. lia.
          -- (* its timestamp is that of a later line *)
             rewrite Ey. assert (t < fst y)%N; [|lia].
             destruct (last_opt l') as [z|] eqn:LZ; [|rewrite El' in LZ; discriminate].
             pose proof (full_after_le_last p l' None t (wf_ok_from p l' None W' I) FA z LZ) as TZ.
             assert (z_lt : (fst z < fst y)%N).
             { destruct W as [SS _]. rewrite <- (firstn_skipn k l) in SS. fold l' in SS. rewrite map_app in SS.
               apply sorted_app_inv in SS. destruct SS as (_ & _ & FA2). rewrite Forall_forall in FA2.
               assert (INz : In z l').
               { destruct (exists_last NE') as (l0 & z' & Ez). rewrite Ez, last_opt_snoc in LZ. inversion LZ; subst z'. rewrite Ez. apply in_or_app. right. left. reflexivity. }
               specialize (FA2 (fst z) (in_map fst _ _ INz)). rewrite Forall_forall in FA2. apply FA2. apply in_map. exact Hy. }
             lia.
        * destruct r as [ix|er| |]; try contradiction.
          -- destruct RES as [EI GI]. rewrite SPLIT, firstn_app, Nat.sub_diag, firstn_all in EI, GI. cbn [firstn] in EI, GI. rewrite app_nil_r in EI, GI.
             exists fsa, ix. split; [apply mcatch_ok; exact IO|]. split.
             ++ rewrite EI. f_equal. pose proof (last_sec_full p l' None 0) as LS. rewrite FA in LS. fold es' in LS.
                destruct (last_opt es') as [e|]; [inversion LS; reflexivity|discriminate].
             ++ split; [exact GI|]. split; [intros g N1 N2; apply OA; exact N1|]. intros PNone. rewrite OA by exact PI. exact PNone.
          -- destruct (REBUILD fsa OA) as (fs2 & ix & E & A1 & A2 & A3 & A4).
             exists fs2, ix. split; [|split; [exact A1|split; [exact A2|split; [exact A3|intros _; exact A4]]]]. eapply mcatch_err_handled; [exact IO|exact E]. }
  destruct IDX as (fs2 & ix & IO & EIX & GI2 & O2 & P2).
  assert (F2 : file_is fs2 o (outer header) (encode p l')).
  { eapply file_is_other; [exact F1|]. apply O2; [exact ND2|exact ND1]. }
  rewrite <- SL' in EIX, GI2.
  destruct (data_open_from_parts p fs fs1 fs2 name header cb l' ix W' FW F1 LM IO EIX GI2 F2) as (d & DO & RD & N1 & N2).
  exists fs2, d, k. split; [exact DO|]. split; [exact Hk|]. split; [exact LE1|]. split; [exact MX1|]. split; [exact RD|].
  split; [exact N1|]. split; [exact N2|].
  split; [intros g A1 A2 A3; rewrite O2 by assumption; apply O1; exact A1|].
  intros PNone. apply P2. rewrite O1 by (apply not_eq_sym; exact ND1). exact PNone.
Qed.

(* ---- at the level of the builder, every payload size ---- *)
Theorem torn_open_gen_names fs name uhdr popt hdropt cb l c :
  let header := params_to_text BSgen.Consts.version (N.of_nat p) ++ uhdr in
  wf_series p l -> Forall (nm_sec p) (secs_of l) -> c <= length (encode p l) ->
  (len header <= 65535)%N -> (len (encode p l) < 2^64)%N -> (N.of_nat p < 2^64)%N ->
  fs_get fs (name ++ ext_data) = Some (outer header ++ firstn c (encode p l)) ->
  index_state fs name (sections p (encode p l)) ->
  (popt = None \/ popt = Some (N.of_nat p)) ->
  match hdropt with HdrIs e => e = uhdr | HdrAny => True end ->
  exists fs' s k, builder_open name popt hdropt [] cb fs = (fs', Ok (s, uhdr))
    /\ k <= length l /\ length (encode p (firstn k l)) <= c /\ (k < length l -> c < length (encode p (firstn (S k) l)))
    /\ RepH fs' s p (outer header) (outer []) (firstn k l) /\ s_cb s = cb
    /\ (forall g, g <> name ++ ext_data -> g <> name ++ ext_index -> g <> name ++ ext_part -> fs_get fs' g = fs_get fs g)
    /\ of_name (d_file (s_data s)) = name ++ ext_data /\ of_name (ix_file (d_index (s_data s))) = name ++ ext_index
    /\ (fs_get fs (name ++ ext_part) = None -> fs_get fs' (name ++ ext_part) = None).
Proof.
  intros header W NM Hc Hh H64 Hp GD IS Hopt HO.
  destruct (fwh_open_ok fs (name ++ ext_data) header (firstn c (encode p l)) Hh GD) as [FO _].
  destruct (data_open_torn_gen fs name header cb l c W NM Hc Hh H64 GD IS) as (fs' & d & k & DO & Hk & LE & MX & RD & N1 & N2 & OT & PT).
  assert (Wk : wf_series p (firstn k l)) by (apply wf_firstn'; exact W).
  exists fs'. eexists. exists k. split; [|split; [exact Hk|split; [exact LE|split; [exact MX|split; [|split; [|split; [exact OT|split; [|split; [|exact PT]]]]]]]]].
  - unfold builder_open, series_open. erewrite mbind_ok.
    2:{ erewrite mbind_ok by exact FO. cbv iota beta.
        unfold lift at 1. erewrite mbind_ok by (unfold header; rewrite (header_roundtrip (N.of_nat p) uhdr popt Hp Hopt); reflexivity). cbv iota beta.
        rewrite Nat2N.id. erewrite mbind_ok by (apply mcatch_ok; exact DO).
        unfold lift at 1. erewrite mbind_ok by (rewrite (data_range_ok p fs' d _ _ (firstn k l) Wk RD); reflexivity).
        erewrite mbind_ok by (apply mcatch_ok; reflexivity). reflexivity. }
    cbv iota beta. destruct hdropt as [|e]; [reflexivity|]. subst e. rewrite bytes_eqb_refl. reflexivity.
  - constructor; cbn [s_data s_down s_range]; [exact RD|exact Wk|reflexivity|reflexivity].
  - reflexivity.
  - exact N1.
  - exact N2.
Qed.

Theorem torn_open_gen fs name uhdr popt hdropt cb l c :
  let header := params_to_text BSgen.Consts.version (N.of_nat p) ++ uhdr in
  wf_series p l -> Forall (nm_sec p) (secs_of l) -> c <= length (encode p l) ->
  (len header <= 65535)%N -> (len (encode p l) < 2^64)%N -> (N.of_nat p < 2^64)%N ->
  fs_get fs (name ++ ext_data) = Some (outer header ++ firstn c (encode p l)) ->
  index_state fs name (sections p (encode p l)) ->
  (popt = None \/ popt = Some (N.of_nat p)) ->
  match hdropt with HdrIs e => e = uhdr | HdrAny => True end ->
  exists fs' s k, builder_open name popt hdropt [] cb fs = (fs', Ok (s, uhdr))
    /\ k <= length l /\ length (encode p (firstn k l)) <= c /\ (k < length l -> c < length (encode p (firstn (S k) l)))
    /\ RepH fs' s p (outer header) (outer []) (firstn k l) /\ s_cb s = cb
    /\ (forall g, g <> name ++ ext_data -> g <> name ++ ext_index -> g <> name ++ ext_part -> fs_get fs' g = fs_get fs g).
Proof.
  intros header W NM Hc Hh H64 Hp GD IS Hopt HO.
  destruct (torn_open_gen_names fs name uhdr popt hdropt cb l c W NM Hc Hh H64 Hp GD IS Hopt HO)
    as (fs' & s & k & E & Hk & LE & MX & R & CB & OT & _).
  exists fs', s, k. repeat (split; [assumption|]). exact OT.
Qed.

(* C04 for every payload size under the one condition *)
Theorem reopen_all_payloads fs s uhdr name popt hdropt cb l :
  let header := params_to_text BSgen.Consts.version (N.of_nat p) ++ uhdr in
  RepH fs s p (outer header) (outer []) l ->
  of_name (d_file (s_data s)) = name ++ ext_data -> of_name (ix_file (d_index (s_data s))) = name ++ ext_index ->
  (len header <= 65535)%N -> (len (encode p l) < 2^64)%N -> (N.of_nat p < 2^64)%N ->
  (popt = None \/ popt = Some (N.of_nat p)) ->
  Forall (nm_sec p) (secs_of l) ->
  match hdropt with HdrIs e => e = uhdr | HdrAny => True end ->
  exists s', builder_open name popt hdropt [] cb fs = (fs, Ok (s', uhdr))
    /\ RepH fs s' p (outer header) (outer []) l /\ s_cb s' = cb
    /\ of_name (d_file (s_data s')) = name ++ ext_data /\ of_name (ix_file (d_index (s_data s'))) = name ++ ext_index.
Proof.
  intros header R N1 N2 Hh H64 Hp Hopt NM HO.
  apply (reopen_nm p fs s uhdr name popt hdropt cb l R N1 N2 Hh H64 Hp Hopt); [|exact NM|exact HO].
  assert (CASE : l = [] \/ l <> []) by (destruct l; [left; reflexivity|right; discriminate]).
  destruct CASE as [E0|NE]; [left; exact E0|right]. apply tail_clean_nm; [exact (rh_wf _ _ _ _ _ _ R)|exact NE|exact NM].
Qed.
End Gen.
