(* The capstone of "Layer I refines Layer S" at the level of the public API: every session - create a series, then ANY
   sequence of appends (accepted or refused), full and bounded reads, first-n reads, line counts and accessor calls - run on
   the model of the library (World.step', what the correspondence check runs against the implementation) is ACCEPTED BY THE
   JUDGE (Judge.judge_step, the extracted specification that decides whether an observed behaviour satisfies the properties):
   at every step the model's answer lies in the set of answers the judge allows, and the files of the model are, byte for
   byte, the files the judge expects. So on this fragment the judge demands nothing the (repaired) library does not do -
   a judge failure there is a deviation of the code from its model, never a disagreement between model and specification. *)
From Coq Require Import List NArith ZArith Lia Bool Arith ZifyBool ZifyN ZifyNat Sorted.
From Coq Require Import Strings.Byte.
Require Import BS.Bytes BS.Common BS.CommonFacts BS.Api BS.Layout BS.Format BS.FormatFacts BS.Spec BS.SpecStep BS.Known BS.Judge BS.Sections.
Require Import BS.FS BS.FSFacts BS.Meta BS.MetaFacts BS.Header BS.Reader BS.ReaderFacts BS.Index BS.Data BS.DataFacts BS.Seek BS.SeekFacts BS.Series BS.World.
Require Import BS.SeriesFacts BS.ReadAllFacts BS.TotalFacts BS.CountFacts BS.OpenFacts BS.SampleFacts BS.ExtractFacts BS.HeaderFacts BS.ParseFileFacts BS.TornFacts BS.TornGenFacts BS.CacheFacts BS.CreateFailFacts BS.RecoverFacts BS.RangeRead BS.HistoryFacts.
Import ListNotations.
Close Scope N_scope. Open Scope nat_scope.

Lemma lines_eqb_refl (l:list line) : lines_eqb l l = true.
Proof.
  unfold lines_eqb. rewrite Nat.eqb_refl. cbn [andb].
  induction l as [|x t IH]; [reflexivity|]. cbn [combine forallb fst snd]. rewrite N.eqb_refl, bytes_eqb_refl. exact IH.
Qed.

Lemma sfs_get_put_same fs f c : sfs_get (sfs_put fs f c) f = Some c.
Proof. induction fs as [|[g d] t IH]; cbn [sfs_put sfs_get]; [rewrite bytes_eqb_refl; reflexivity|]. destruct (bytes_eqb g f) eqn:E; cbn [sfs_get]; rewrite E; [reflexivity|exact IH]. Qed.
Lemma sfs_get_put_other fs f c g : g <> f -> sfs_get (sfs_put fs f c) g = sfs_get fs g.
Proof.
  intros N. induction fs as [|[h d] t IH]; cbn [sfs_put sfs_get].
  - rewrite (bytes_eqb_neq f g) by congruence. reflexivity.
  - destruct (bytes_eqb h f) eqn:E; cbn [sfs_get].
    + apply bytes_eqb_eq in E. subst h. rewrite (bytes_eqb_neq f g) by congruence. reflexivity.
    + destruct (bytes_eqb h g); [reflexivity|exact IH].
Qed.
Lemma sfs_get_del_other fs f g : g <> f -> sfs_get (sfs_del fs f) g = sfs_get fs g.
Proof.
  intros N. induction fs as [|[h d] t IH]; cbn [sfs_del sfs_get]; [reflexivity|].
  destruct (bytes_eqb h f) eqn:E.
  - apply bytes_eqb_eq in E. subst h. rewrite (bytes_eqb_neq f g) by congruence. exact IH.
  - cbn [sfs_get]. destruct (bytes_eqb h g); [reflexivity|exact IH].
Qed.
Lemma sfs_get_del_same fs f : sfs_get (sfs_del fs f) f = None.
Proof. induction fs as [|[h d] t IH]; cbn [sfs_del sfs_get]; [reflexivity|]. destruct (bytes_eqb h f) eqn:E; [exact IH|]. cbn [sfs_get]. rewrite E. exact IH. Qed.

Lemma strictly_inc_sorted (l:list line) : StronglySorted N.lt (map fst l) -> strictly_inc l = true.
Proof.
  induction l as [|a [|b t] IH]; intros S; [reflexivity|reflexivity|].
  cbn [map] in S. inversion S as [|? ? St Hall]; subst. cbn [strictly_inc].
  inversion Hall; subst. replace (fst a <? fst b)%N with true by (symmetry; apply N.ltb_lt; assumption). apply IH. exact St.
Qed.
Lemma wf_lines_of_wf p (l:list line) : wf_series p l -> wf_lines p l = true.
Proof.
  intros [S F]. unfold wf_lines. rewrite (strictly_inc_sorted l S). cbn [andb].
  apply forallb_forall. intros x Hx. rewrite Forall_forall in F. destruct (F x Hx) as [H1 H2].
  replace (length (snd x) =? p) with true by (symmetry; apply Nat.eqb_eq; exact H2).
  replace (fst x <? U64)%N with true by (symmetry; apply N.ltb_lt; unfold U64; exact H1). reflexivity.
Qed.

Lemma close_handle_closed dh ch (s:sstate) : ss_h s = None -> close_handle dh ch s = s.
Proof. destruct s as [fs h o d]. cbn [ss_h]. intros ->. reflexivity. Qed.

Lemma accepts_r_rev p (l:list line) ts pay : accepts_r p (rev l) ts pay = accepts p l ts pay.
Proof.
  unfold accepts_r, accepts. f_equal.
  destruct l as [|x t] using rev_ind; [reflexivity|]. rewrite rev_app_distr, last_opt_snoc. reflexivity.
Qed.

(* the answer of a resampling read - the bucket means for some bucket size b >= 1, at most 2n of them - is one the judge's
   search over bucket sizes finds *)
Lemma uniform_means_resample p n (sel:list line) b : b >= 1 -> (len (resample p b sel) <= 2 * n)%N ->
  uniform_means p n sel (resample p b sel) = true.
Proof.
  intros Hb L2. unfold uniform_means. replace (len (resample p b sel) <=? 2 * n)%N with true by (symmetry; apply N.leb_le; exact L2).
  cbn [andb]. destruct (resample p b sel) as [|x t] eqn:RS; [reflexivity|]. rewrite <- RS.
  assert (LK : length (resample p b sel) = length sel / b).
  { unfold resample, cache_of. rewrite map_length. apply buckets_length. lia. }
  set (k := length (resample p b sel)) in *.
  assert (K0 : k > 0) by (unfold k; rewrite RS; cbn [length]; lia).
  apply existsb_exists. exists b. split.
  - apply in_seq.
    assert (B1 : b * k <= length sel) by (rewrite LK; apply Nat.mul_div_le; lia).
    assert (B2 : length sel < b * S k).
    { rewrite LK. pose proof (Nat.mul_succ_div_gt (length sel) b ltac:(lia)). lia. }
    assert (H1 : length sel / S k <= b).
    { apply Nat.div_le_upper_bound; [lia|]. lia. }
    assert (H2 : b <= length sel / k).
    { apply Nat.div_le_lower_bound; [lia|]. lia. }
    lia.
  - replace (1 <=? b) with true by (symmetry; apply Nat.leb_le; lia). cbn [andb]. apply lines_eqb_refl.
Qed.

Section Session.
Variables (name:fname) (p:nat) (hdr:list byte).
Let header := params_to_text BSgen.Consts.version (N.of_nat p) ++ hdr.
Hypothesis Hh : (len header <= 65535)%N.

(* the operations of a session on one handle: what the types of the public API allow (timestamps are u64) *)
Inductive sess_op : op -> Prop :=
| so_push ts pay : (ts < 2^64)%N -> sess_op (OPush ts pay)
| so_read lo hi : sess_op (OReadAll lo hi)
| so_first n lo hi : sess_op (OReadFirstN n lo hi)
| so_resample n lo hi : sess_op (OReadN n lo hi)
| so_count lo hi : sess_op (ONLines lo hi)
| so_last : sess_op OLastLine
| so_len : sess_op OLen
| so_empty : sess_op OIsEmpty
| so_range : sess_op ORange
| so_psize : sess_op OPayloadSize.

(* model state and judge state describe the same series holding the lines l *)
Definition Rel (w:world) (s:sstate) (l:list line) : Prop :=
  exists sr h, w_h w = Some sr /\ ss_h s = Some h
    /\ RepH (w_fs w) sr p (outer header) (outer []) l
    /\ of_name (d_file (s_data sr)) = name ++ ext_data /\ of_name (ix_file (d_index (s_data sr))) = name ++ ext_index
    /\ (forall g, g <> name ++ ext_data -> g <> name ++ ext_index -> fs_get (w_fs w) g = None)
    /\ sh_name h = name /\ sh_p h = p /\ sh_hdr h = hdr /\ sh_caches h = [] /\ sh_dmg h = None
    /\ sh_rlines h = rev l /\ sh_rregion h = rev (encode p l) /\ sh_full h = full_after p None l
    /\ (forall g, g <> name ++ ext_data -> g <> name ++ ext_index -> sfs_get (ss_fs s) g = None) /\ ss_det s = true.

(* the files of the model are the files the judge expects *)
Lemma rel_files w s l : Rel w s l -> forall g, fs_get (w_fs w) g = sfs_get (judge_files s) g.
Proof.
  intros (sr & h & Hw & Hs & R & N1 & N2 & Oth & A1 & A2 & A3 & A4 & A5 & A6 & A7 & A8 & A9 & A10) g.
  pose proof (rd_file _ _ _ _ _ _ _ _ (rh_data _ _ _ _ _ _ R)) as [GD _].
  pose proof (rd_ix _ _ _ _ _ _ _ _ (rh_data _ _ _ _ _ _ R)) as [GI _].
  rewrite N1 in GD. rewrite N2 in GI.
  unfold judge_files, expected_files. rewrite Hs. unfold handle_files. rewrite A5, A4, A1, A2, A3. cbn [flat_map].
  assert (RG : sh_region h = encode p l) by (unfold sh_region; rewrite A7, frev_rev, rev_involutive; reflexivity).
  rewrite RG. unfold put_all. cbn [fold_left fst snd].
  change (name ++ s_ext_data) with (name ++ ext_data). change (name ++ s_ext_index) with (name ++ ext_index).
  destruct (list_eq_dec Byte.byte_eq_dec g (name ++ ext_index)) as [->|G2].
  - rewrite sfs_get_put_same. rewrite GI. reflexivity.
  - rewrite sfs_get_put_other by exact G2.
    destruct (list_eq_dec Byte.byte_eq_dec g (name ++ ext_data)) as [->|G1].
    + rewrite sfs_get_put_same. rewrite GD. reflexivity.
    + rewrite sfs_get_put_other by exact G1. rewrite A9 by assumption. apply Oth; assumption.
Qed.

Lemma rel_keep w s l sr : Rel w s l -> w_h w = Some sr -> Rel {| w_fs := w_fs w; w_h := Some sr |} s l.
Proof.
  intros (sr0 & h & Hw & Rest) E. rewrite Hw in E. inversion E; subst sr0.
  exists sr, h. cbn [w_h w_fs]. split; [reflexivity|]. exact Rest.
Qed.

(* the lines after an operation, as Layer S has them *)
Definition next_lines (l:list line) (o:op) : list line :=
  match o with OPush ts pay => if accepts p l ts pay then l ++ [(ts, pay)] else l | _ => l end.

(* one operation of a session: the model's answer is allowed by the judge, and the two states stay related *)
Theorem step_accepted w s l o : Rel w s l -> sess_op o ->
  snd (judge_step s o) (snd (step' w o)) = true /\ Rel (fst (step' w o)) (fst (judge_step s o)) (next_lines l o).
Proof.
  intros RL SO.
  destruct RL as (sr & h & Hw & Hs & R & N1 & N2 & Oth & A1 & A2 & A3 & A4 & A5 & A6 & A7 & A8 & A9 & A10).
  assert (LN : sh_lines h = l) by (unfold sh_lines; rewrite A6, frev_rev, rev_involutive; reflexivity).
  assert (RG : sh_region h = encode p l) by (unfold sh_region; rewrite A7, frev_rev, rev_involutive; reflexivity).
  assert (KEEP : Rel w s l).
  { exists sr, h. repeat (split; [assumption|]). assumption. }
  assert (JS : forall o', match o' with ONew _ _ _ _ _ | OOpen _ _ _ _ _ | OClose => False | _ => True end ->
               judge_step s o' = spec_step' j_data_header j_cache_header s o').
  { intros o' Ho. unfold judge_step, spec_step. rewrite Hs, A5. reflexivity. }
  destruct SO as [ts pay Hts|lo hi|n lo hi|n lo hi|lo hi| | | | |].
  - (* push *)
    rewrite JS by exact I. cbn [step' step spec_step'].
    unfold spec_push, with_h. rewrite Hs. rewrite A2, A6, accepts_r_rev.
    cbn [next_lines]. pose proof (push_line_ok (w_fs w) sr p _ _ l ts pay R Hts) as PL.
    destruct (accepts p l ts pay) eqn:AC.
    + destruct PL as (fs' & sr' & E & R' & Oth' & M1 & M2).
      destruct (tail_bytes p (sh_full h) (ts, pay)) as [b f'] eqn:TB.
      unfold with_handle. rewrite Hw. erewrite mbind_ok by exact E. cbn [ret fst snd is_out].
      split; [reflexivity|].
      eexists sr', _. cbn [w_h w_fs ss_h set_h ss_fs ss_det].
      split; [reflexivity|]. split; [reflexivity|]. split; [exact R'|]. split; [rewrite M1; exact N1|]. split; [rewrite M2; exact N2|].
      split.
      { intros g G1 G2. rewrite Oth' by (rewrite ?N1, ?N2; assumption). apply Oth; assumption. }
      cbn [sh_name sh_p sh_hdr sh_caches sh_dmg sh_rlines sh_rregion sh_full].
      split; [exact A1|]. split; [reflexivity|]. split; [exact A3|]. split; [exact A4|]. split; [reflexivity|].
      split; [rewrite rev_app_distr; reflexivity|].
      rewrite A8 in TB.
      split.
      { rewrite A7, rev_append_rev, <- rev_app_distr, encode_snoc, TB. reflexivity. }
      split; [rewrite full_after_snoc, TB; reflexivity|]. split; assumption.
    + destruct PL as (e & E).       unfold with_handle. rewrite Hw. erewrite mbind_err by exact E. cbn [fst snd is_err].
      split; [reflexivity|].
      exact (rel_keep w s l sr KEEP Hw).
  - (* read_all *)
    rewrite JS by exact I. cbn [step' step spec_step']. unfold with_h. rewrite Hs, LN. cbn [fst snd].
    cbn [next_lines].
    unfold with_handle, reading. rewrite Hw.
    destruct (read_all_ok (w_fs w) sr p _ _ l R lo hi) as [E|[SE E]].
    + erewrite mbind_ok by exact E. cbn [ret fst snd]. split.
      * unfold lines_or_nothing. destruct (select lo hi l) eqn:S0; [reflexivity|]. cbn [is_out]. apply lines_eqb_refl.
      * exact (rel_keep w s l sr KEEP Hw).
    + erewrite mbind_err by exact E. cbn [fst snd]. rewrite SE. split; [reflexivity|].
      exact (rel_keep w s l sr KEEP Hw).
  - (* read_first_n *)
    rewrite JS by exact I. cbn [step' step spec_step']. unfold with_h. rewrite Hs, LN. cbn [fst snd].
    cbn [next_lines].
    unfold with_handle, reading. rewrite Hw.
    destruct (N.eqb_spec n 0) as [->|Hn].
    + unfold read_first_n. cbn [N.eqb]. unfold mbind, ret. cbn [fst snd]. split; [reflexivity|].
      exact (rel_keep w s l sr KEEP Hw).
    + destruct (read_first_n_ok (w_fs w) sr p _ _ l R n lo hi ltac:(lia)) as [E|[SE E]].
      * erewrite mbind_ok by exact E. cbn [ret fst snd]. split.
        -- unfold lines_or_nothing. destruct (firstn _ _) eqn:S0; [reflexivity|]. cbn [is_out]. apply lines_eqb_refl.
        -- exact (rel_keep w s l sr KEEP Hw).
      * erewrite mbind_err by exact E. cbn [fst snd]. rewrite SE. rewrite firstn_nil. split; [reflexivity|].
        exact (rel_keep w s l sr KEEP Hw).
  - (* read_n, no cache levels *)
    rewrite JS by exact I. cbn [step' step spec_step']. unfold with_h. rewrite Hs. cbn [fst snd].
    cbn [next_lines].
    unfold with_handle, reading. rewrite Hw. unfold read_n_allowed. rewrite LN, A4. cbn [map existsb].
    destruct (N.eqb_spec n 0) as [->|Hn].
    + unfold read_n. rewrite (rh_down _ _ _ _ _ _ R). cbn [sorted_lens N.eqb]. unfold mbind, ret. cbn [fst snd]. split; [reflexivity|].
      exact (rel_keep w s l sr KEEP Hw).
    + replace (n =? 0)%N with false by (symmetry; apply N.eqb_neq; exact Hn).
      destruct (read_n_ok (w_fs w) sr p _ _ l R n lo hi (rh_down _ _ _ _ _ _ R) ltac:(lia)) as [(b & Hb & E & L2)|[SE E]].
      * erewrite mbind_ok by exact E. cbn [ret fst snd]. split; [|exact (rel_keep w s l sr KEEP Hw)].
        rewrite A2, (uniform_means_resample p n _ b Hb L2). reflexivity.
      * erewrite mbind_err by exact E. cbn [fst snd]. rewrite SE. split; [reflexivity|].
        exact (rel_keep w s l sr KEEP Hw).
  - (* n_lines *)
    rewrite JS by exact I. cbn [step' step spec_step']. unfold with_h. rewrite Hs, LN, RG, A2. cbn [fst snd].
    cbn [next_lines].
    unfold with_handle, reading. rewrite Hw.
    destruct (n_lines_ok (w_fs w) sr p _ _ l R lo hi) as [(k & E & Hk)|[[SE E]|(SE & _ & E)]].
    + erewrite mbind_ok by exact E. cbn [ret fst snd]. split.
      * destruct (select lo hi l) as [|x t] eqn:S0.
        -- subst k. reflexivity.
        -- destruct (n_lines_within_bound (w_fs w) sr p _ _ l R lo hi k E) as [B1 B2]; [rewrite S0; discriminate|].
           rewrite S0 in B1, B2. apply andb_true_intro. split; apply N.leb_le; assumption.
      * exact (rel_keep w s l sr KEEP Hw).
    + erewrite mbind_err by exact E. cbn [fst snd]. rewrite SE. split; [reflexivity|].
      exact (rel_keep w s l sr KEEP Hw).
    + erewrite mbind_ok by exact E. cbn [ret fst snd]. rewrite SE. split; [reflexivity|].
      exact (rel_keep w s l sr KEEP Hw).
  - (* last_line *)
    rewrite JS by exact I. cbn [step' step spec_step']. unfold with_h. rewrite Hs, LN. cbn [fst snd].
    cbn [next_lines].
    unfold with_handle, reading. rewrite Hw. pose proof (last_line_ok (w_fs w) sr p _ _ l R) as E.
    destruct (last_opt l) as [x|] eqn:LO.
    + erewrite mbind_ok by exact E. cbn [ret fst snd is_out]. rewrite N.eqb_refl, bytes_eqb_refl. split; [reflexivity|].
      exact (rel_keep w s l sr KEEP Hw).
    + erewrite mbind_err by exact E. cbn [fst snd is_err]. split; [reflexivity|].
      exact (rel_keep w s l sr KEEP Hw).
  - (* len *)
    rewrite JS by exact I. cbn [step' step spec_step']. unfold with_h. rewrite Hs, LN. cbn [fst snd].
    cbn [next_lines].
    unfold with_handle, reading, lift. rewrite Hw. rewrite (len_ok _ _ _ _ _ _ R). unfold mbind, ret. cbn [fst snd is_out].
    rewrite N.eqb_refl. split; [reflexivity|].
    exact (rel_keep w s l sr KEEP Hw).
  - (* is_empty *)
    rewrite JS by exact I. cbn [step' step spec_step']. unfold with_h. rewrite Hs, LN. cbn [fst snd].
    cbn [next_lines].
    unfold with_handle, reading, lift. rewrite Hw. rewrite (len_ok _ _ _ _ _ _ R). unfold mbind, ret. cbn [fst snd is_out].
    split.
    + destruct l as [|x t]; [reflexivity|]. unfold len. cbn [length]. replace (N.of_nat (S (length t)) =? 0)%N with false by (symmetry; apply N.eqb_neq; lia). reflexivity.
    + exact (rel_keep w s l sr KEEP Hw).
  - (* range *)
    rewrite JS by exact I. cbn [step' step spec_step']. unfold with_h. rewrite Hs, LN. cbn [fst snd].
    cbn [next_lines].
    unfold with_handle, reading. rewrite Hw. rewrite (range_ok _ _ _ _ _ _ R). unfold mbind, ret. cbn [fst snd is_out].
    split.
    + destruct (first_last l) as [[a b]|]; [rewrite !N.eqb_refl; reflexivity|reflexivity].
    + exact (rel_keep w s l sr KEEP Hw).
  - (* payload_size *)
    rewrite JS by exact I. cbn [step' step spec_step']. unfold with_h. rewrite Hs, A2. cbn [fst snd].
    cbn [next_lines].
    unfold with_handle, reading. rewrite Hw. rewrite (payload_size_ok _ _ _ _ _ _ R). unfold mbind, ret. cbn [fst snd is_out].
    rewrite N.eqb_refl. split; [reflexivity|].
    exact (rel_keep w s l sr KEEP Hw).
Qed.

(* creating the series in an empty directory: accepted, and the two states are related for the empty list *)
Theorem new_accepted cb :
  snd (judge_step judge_init (ONew name (N.of_nat p) hdr [] cb)) (snd (step' init_world (ONew name (N.of_nat p) hdr [] cb))) = true
  /\ Rel (fst (step' init_world (ONew name (N.of_nat p) hdr [] cb))) (fst (judge_step judge_init (ONew name (N.of_nat p) hdr [] cb))) [].
Proof.
  destruct (series_new_ok [] name p hdr cb eq_refl eq_refl Hh) as (fs' & sr & E & R & _ & N1 & N2 & Oth).
  cbn [step' step w_fs init_world]. rewrite E.
  unfold judge_step, spec_step, judge_init, spec_init. cbn [ss_h spec_step'].
  unfold spec_new, close_handle, expected_files. cbn [ss_h ss_fs ss_orig ss_det existsb sfs_mem sfs_get any_stale orb].
  rewrite Nat2N.id.
  change (j_data_header p hdr) with header.
  replace (65535 <? len header)%N with false by (symmetry; apply N.ltb_ge; exact Hh).
  cbn [fst snd is_out]. rewrite (payload_size_ok _ _ _ _ _ _ R), N.eqb_refl, bytes_eqb_refl. split; [reflexivity|].
  eexists sr, _. cbn [w_h w_fs ss_h ss_fs ss_det sh_name sh_p sh_hdr sh_caches sh_dmg sh_rlines sh_rregion sh_full].
  split; [reflexivity|]. split; [reflexivity|]. split; [exact R|]. split; [exact N1|]. split; [exact N2|].
  split; [intros g G1 G2; rewrite Oth by assumption; reflexivity|].
  repeat (split; [reflexivity|]). reflexivity.
Qed.

(* ---- close and reopen ---- *)
Hypothesis Hp : (N.of_nat p < 2^64)%N.

(* both sides closed; the files of the series lie on disk as the last handle left them *)
Definition RelC (w:world) (s:sstate) (l:list line) : Prop :=
  w_h w = None /\ ss_h s = None
  /\ (exists sr, RepH (w_fs w) sr p (outer header) (outer []) l
               /\ of_name (d_file (s_data sr)) = name ++ ext_data /\ of_name (ix_file (d_index (s_data sr))) = name ++ ext_index)
  /\ (forall g, g <> name ++ ext_data -> g <> name ++ ext_index -> fs_get (w_fs w) g = None)
  /\ (forall g, fs_get (w_fs w) g = sfs_get (ss_fs s) g)
  /\ ss_det s = true.

Lemma relc_files w s l : RelC w s l -> forall g, fs_get (w_fs w) g = sfs_get (judge_files s) g.
Proof. intros (_ & Hs & _ & _ & F & _) g. unfold judge_files, expected_files. rewrite Hs. apply F. Qed.

Theorem close_accepted w s l : Rel w s l ->
  snd (judge_step s OClose) (snd (step' w OClose)) = true /\ RelC (fst (step' w OClose)) (fst (judge_step s OClose)) l.
Proof.
  intros RL. pose proof (rel_files w s l RL) as FILES.
  destruct RL as (sr & h & Hw & Hs & R & N1 & N2 & Oth & A1 & A2 & A3 & A4 & A5 & A6 & A7 & A8 & A9 & A10).
  unfold judge_step, spec_step. rewrite Hs, A5. cbn [spec_step' step' step]. rewrite Hs, Hw. cbn [fst snd is_out].
  split; [reflexivity|].
  unfold RelC, close_handle. cbn [w_h w_fs ss_h ss_fs ss_det].
  split; [reflexivity|]. split; [reflexivity|]. split; [exists sr; repeat (split; [assumption|]); assumption|].
  split; [exact Oth|]. split; [exact FILES|exact A10].
Qed.

(* what must hold of the lines on disk for a reopen to be in the territory where C04 is proved: payload sizes 0..3 need the
   marker-word condition (outside it: known finding D6) *)
Definition reopen_valid (l:list line) (popt:option N) (hdropt:hdropt) : Prop :=
  Forall (nm_sec p) (secs_of l) /\ (len (encode p l) < 2^64)%N
  /\ (popt = None \/ popt = Some (N.of_nat p)) /\ match hdropt with HdrIs e => e = hdr | HdrAny => True end.

Theorem open_accepted w s l popt hdropt cb : RelC w s l -> reopen_valid l popt hdropt ->
  snd (judge_step s (OOpen name popt hdropt [] cb)) (snd (step' w (OOpen name popt hdropt [] cb))) = true
  /\ Rel (fst (step' w (OOpen name popt hdropt [] cb))) (fst (judge_step s (OOpen name popt hdropt [] cb))) l.
Proof.
  intros (Hw & Hs & (sr & R & N1 & N2) & Oth & F & DET) (NM & H64 & Hopt & HO).
  destruct (reopen_all_payloads p (w_fs w) sr hdr name popt hdropt cb l R N1 N2 Hh H64 Hp Hopt NM HO) as (s' & E & R' & CB & M1 & M2).
  pose proof (rh_wf _ _ _ _ _ _ R) as W.
  pose proof (rd_file _ _ _ _ _ _ _ _ (rh_data _ _ _ _ _ _ R)) as [GD _]. rewrite N1 in GD.
  assert (SD : sfs_get (ss_fs s) (name ++ ext_data) = Some (outer header ++ encode p l)) by (rewrite <- F; exact GD).
  cbn [step' step w_fs]. rewrite E. cbn [fst snd].
  unfold judge_step, spec_step. rewrite Hs. cbn [spec_step'].
  unfold spec_open. rewrite (close_handle_closed _ _ s Hs). cbn [existsb].
  change (name ++ s_ext_data) with (name ++ ext_data). rewrite SD.
  pose proof (parse_file_ok (N.of_nat p) hdr (encode p l) Hp Hh) as PF. cbv zeta in PF. fold header in PF.
  rewrite PF. cbn [pf_p pf_user pf_region]. rewrite Nat2N.id.
  assert (PO : match popt with Some q => negb (q =? N.of_nat p)%N | None => false end = false).
  { destruct Hopt as [->| ->]; [reflexivity|]. rewrite N.eqb_refl. reflexivity. }
  rewrite PO. rewrite (recover_encode p l W). rewrite (wf_lines_of_wf p l W). cbn [negb].
  assert (TK : take (N.of_nat (length (encode p l))) (encode p l) = encode p l).
  { unfold take, len. rewrite N.min_id, Nat2N.id. apply firstn_all. }
  rewrite TK.
  assert (OUT : forall e, e = hdr -> is_out (ROpened (N.of_nat (d_p (s_data s'))) hdr) (ROpened (N.of_nat p) e) = true).
  { intros e ->. cbn [is_out]. rewrite (payload_size_ok _ _ _ _ _ _ R'), N.eqb_refl, bytes_eqb_refl. reflexivity. }
  assert (REL : forall cbx, Rel {| w_fs := w_fs w; w_h := Some s' |}
            {| ss_fs := sfs_del (ss_fs s) (name ++ s_ext_part);
               ss_h := Some {| sh_name := name; sh_p := p; sh_hdr := hdr; sh_caches := []; sh_cb := cbx;
                               sh_rlines := frev l; sh_rregion := frev (encode p l); sh_full := last_full p (encode p l); sh_dmg := None |};
               ss_orig := sfs_del (ss_orig s) (name ++ ext_data); ss_det := ss_det s |} l).
  { intros cbx. eexists s', _. cbn [w_h w_fs ss_h ss_fs ss_det sh_name sh_p sh_hdr sh_caches sh_dmg sh_rlines sh_rregion sh_full].
    split; [reflexivity|]. split; [reflexivity|]. split; [exact R'|]. split; [exact M1|]. split; [exact M2|]. split; [exact Oth|].
    repeat (split; [reflexivity|]).
    split; [apply frev_rev|]. split; [apply frev_rev|]. split; [apply (last_full_encode p l W)|].
    split; [|exact DET].
    intros g G1 G2. destruct (list_eq_dec Byte.byte_eq_dec g (name ++ s_ext_part)) as [->|G3]; [apply sfs_get_del_same|].
    rewrite sfs_get_del_other by exact G3. rewrite <- F. apply Oth; assumption. }
  destruct hdropt as [|e].
  - cbn [fst snd]. split; [apply OUT; reflexivity|apply REL].
  - cbn in HO. subst e. rewrite bytes_eqb_refl. cbn [fst snd]. split; [apply OUT; reflexivity|apply REL].
Qed.

(* ---- refused calls on a closed series (C17 at the level of the judge): a create of the series that exists - with any payload
        size and any header, the "create, else open" start-up of an application -, and an open that demands another payload size:
        an error on both sides, every file stays what it is ---- *)
Lemma relc_closed_world w s l : RelC w s l -> RelC {| w_fs := w_fs w; w_h := None |} s l.
Proof. intros (Hw & Rest). split; [reflexivity|exact Rest]. Qed.

Theorem new_refused_accepted w s l p' hdr' cb : RelC w s l ->
  snd (judge_step s (ONew name p' hdr' [] cb)) (snd (step' w (ONew name p' hdr' [] cb))) = true
  /\ RelC (fst (step' w (ONew name p' hdr' [] cb))) (fst (judge_step s (ONew name p' hdr' [] cb))) l.
Proof.
  intros RC. pose proof RC as (Hw & Hs & (sr & R & N1 & N2) & Oth & F & DET).
  pose proof (rd_file _ _ _ _ _ _ _ _ (rh_data _ _ _ _ _ _ R)) as [GD _]. rewrite N1 in GD.
  assert (M : fs_mem (w_fs w) (name ++ ext_data) = true) by (rewrite CacheFacts.fs_mem_get, GD; reflexivity).
  assert (SM : sfs_mem (ss_fs s) (name ++ s_ext_data) = true).
  { unfold sfs_mem. change (name ++ s_ext_data) with (name ++ ext_data). rewrite <- F, GD. reflexivity. }
  assert (E : exists e, series_new name p' hdr' [] cb (w_fs w) = (w_fs w, Err e)).
  { destruct (N.le_gt_cases (len (params_to_text BSgen.Consts.version p' ++ hdr')) 65535) as [LE|GT].
    - exists EExists. apply new_over_existing; assumption.
    - exists EHeaderTooLarge. apply new_header_too_large. lia. }
  destruct E as (e & E).
  cbn [step' step w_fs]. rewrite E. cbn [fst snd].
  unfold judge_step, spec_step. rewrite Hs. cbn [spec_step']. unfold spec_new. rewrite (close_handle_closed _ _ s Hs).
  cbn [existsb]. rewrite SM. cbn [fst snd is_err].
  split; [reflexivity|]. apply relc_closed_world. exact RC.
Qed.

Theorem open_other_p_accepted w s l q hdropt cb : RelC w s l -> q <> N.of_nat p ->
  snd (judge_step s (OOpen name (Some q) hdropt [] cb)) (snd (step' w (OOpen name (Some q) hdropt [] cb))) = true
  /\ RelC (fst (step' w (OOpen name (Some q) hdropt [] cb))) (fst (judge_step s (OOpen name (Some q) hdropt [] cb))) l.
Proof.
  intros RC Hq. pose proof RC as (Hw & Hs & (sr & R & N1 & N2) & Oth & F & DET).
  pose proof (rd_file _ _ _ _ _ _ _ _ (rh_data _ _ _ _ _ _ R)) as [GD _]. rewrite N1 in GD.
  assert (SD : sfs_get (ss_fs s) (name ++ ext_data) = Some (outer header ++ encode p l)) by (rewrite <- F; exact GD).
  pose proof (open_other_payload p (w_fs w) name hdr (encode p l) q [] cb Hh Hp Hq GD) as E.
  cbn [step' step w_fs]. unfold builder_open. erewrite mbind_err by exact E. cbn [fst snd].
  unfold judge_step, spec_step. rewrite Hs. cbn [spec_step']. unfold spec_open. rewrite (close_handle_closed _ _ s Hs). cbn [existsb].
  change (name ++ s_ext_data) with (name ++ ext_data). rewrite SD.
  pose proof (parse_file_ok (N.of_nat p) hdr (encode p l) Hp Hh) as PF. cbv zeta in PF. fold header in PF.
  rewrite PF. cbn [pf_p]. rewrite Nat2N.id.
  replace (q =? N.of_nat p)%N with false by (symmetry; apply N.eqb_neq; exact Hq). cbn [negb fst snd is_err open_err].
  split; [reflexivity|]. apply relc_closed_world. exact RC.
Qed.

Theorem open_missing_other_accepted w s l name2 popt hdropt cb : RelC w s l ->
  name2 ++ ext_data <> name ++ ext_data -> name2 ++ ext_data <> name ++ ext_index ->
  snd (judge_step s (OOpen name2 popt hdropt [] cb)) (snd (step' w (OOpen name2 popt hdropt [] cb))) = true
  /\ RelC (fst (step' w (OOpen name2 popt hdropt [] cb))) (fst (judge_step s (OOpen name2 popt hdropt [] cb))) l.
Proof.
  intros RC D1 D2. pose proof RC as (Hw & Hs & _ & Oth & F & DET).
  assert (G : fs_get (w_fs w) (name2 ++ ext_data) = None) by (apply Oth; assumption).
  assert (M : fs_mem (w_fs w) (name2 ++ ext_data) = false) by (rewrite CacheFacts.fs_mem_get, G; reflexivity).
  cbn [step' step w_fs]. rewrite (builder_open_missing (w_fs w) name2 popt hdropt [] cb M). cbn [fst snd open_err].
  unfold judge_step, spec_step. rewrite Hs. cbn [spec_step']. unfold spec_open. rewrite (close_handle_closed _ _ s Hs). cbn [existsb].
  change (name2 ++ s_ext_data) with (name2 ++ ext_data). rewrite <- F, G. cbn [fst snd is_err].
  split; [reflexivity|]. apply relc_closed_world. exact RC.
Qed.

(* ---- crashes: the data file cut at any byte of its data region, the index file lost or cut at any byte, then an open ---- *)
Definition closed_agree (w:world) (s:sstate) : Prop :=
  w_h w = None /\ ss_h s = None /\ (forall g, fs_get (w_fs w) g = sfs_get (ss_fs s) g).

(* a file cut by k bytes from its end, on both sides *)
Lemma cut_accepted w s f k : closed_agree w s ->
  snd (judge_step s (OFsCut f k)) (snd (step' w (OFsCut f k))) = true
  /\ closed_agree (fst (step' w (OFsCut f k))) (fst (judge_step s (OFsCut f k)))
  /\ ss_det (fst (judge_step s (OFsCut f k))) = ss_det s
  /\ w_fs (fst (step' w (OFsCut f k))) = match fs_get (w_fs w) f with Some c => fs_put (w_fs w) f (take (len c - k) c) | None => w_fs w end.
Proof.
  intros (Hw & Hs & AG).
  unfold judge_step, spec_step. rewrite Hs. cbn [spec_step' step' step]. unfold spec_fs, fs_op. rewrite Hs, Hw.
  rewrite <- (AG f). destruct (fs_get (w_fs w) f) as [c|] eqn:G; cbn [fst snd w_fs w_h ss_fs ss_h ss_det is_out no_file].
  - split; [reflexivity|]. split; [|split; reflexivity]. split; [reflexivity|]. split; [reflexivity|].
    intros g. cbn [w_fs ss_fs]. destruct (list_eq_dec Byte.byte_eq_dec g f) as [->|N].
    + rewrite fs_get_put_same, sfs_get_put_same. reflexivity.
    + rewrite fs_get_put_other, sfs_get_put_other by exact N. apply AG.
  - split; [reflexivity|]. split; [|split; reflexivity]. split; [reflexivity|]. split; [reflexivity|exact AG].
Qed.

Lemma rm_accepted w s f : closed_agree w s ->
  snd (judge_step s (OFsRm f)) (snd (step' w (OFsRm f))) = true
  /\ closed_agree (fst (step' w (OFsRm f))) (fst (judge_step s (OFsRm f)))
  /\ ss_det (fst (judge_step s (OFsRm f))) = ss_det s
  /\ w_fs (fst (step' w (OFsRm f))) = if fs_mem (w_fs w) f then fs_del (w_fs w) f else w_fs w.
Proof.
  intros (Hw & Hs & AG).
  unfold judge_step, spec_step. rewrite Hs. cbn [spec_step' step' step]. unfold spec_fs, fs_op. rewrite Hs, Hw.
  assert (MM : sfs_mem (ss_fs s) f = fs_mem (w_fs w) f) by (unfold sfs_mem; rewrite CacheFacts.fs_mem_get, (AG f); reflexivity).
  rewrite MM. destruct (fs_mem (w_fs w) f) eqn:M; cbn [fst snd w_fs w_h ss_fs ss_h ss_det is_out no_file].
  - split; [reflexivity|]. split; [|split; reflexivity]. split; [reflexivity|]. split; [reflexivity|].
    intros g. cbn [w_fs ss_fs]. destruct (list_eq_dec Byte.byte_eq_dec g f) as [->|N].
    + rewrite fs_get_del_same, sfs_get_del_same. reflexivity.
    + rewrite fs_get_del_other, sfs_get_del_other by exact N. apply AG.
  - split; [reflexivity|]. split; [|split; reflexivity]. split; [reflexivity|]. split; [reflexivity|exact AG].
Qed.

(* both sides closed after a crash: the data region is the first c bytes of the encoding of l, the index file is absent or a
   prefix of the index of l; nothing else in the directory *)
Definition RelX (w:world) (s:sstate) (l:list line) (c:nat) : Prop :=
  closed_agree w s /\ wf_series p l /\ c <= length (encode p l)
  /\ fs_get (w_fs w) (name ++ ext_data) = Some (outer header ++ firstn c (encode p l))
  /\ index_state (w_fs w) name (sections p (encode p l))
  /\ (forall g, g <> name ++ ext_data -> g <> name ++ ext_index -> fs_get (w_fs w) g = None)
  /\ ss_det s = true.

Lemma take_cut_region (h e:list byte) (k:N) : (k <= len e)%N ->
  take (len (h ++ e) - k) (h ++ e) = h ++ firstn (length e - N.to_nat k) e.
Proof.
  intros Hk. rewrite take_firstn. unfold len in *. rewrite app_length.
  replace (N.to_nat (N.of_nat (length h + length e) - k)) with (length h + (length e - N.to_nat k)) by lia.
  rewrite firstn_app. replace (length h + (length e - N.to_nat k) - length h) with (length e - N.to_nat k) by lia.
  rewrite firstn_all2 by lia. reflexivity.
Qed.

(* the faults of a crash: the data file loses its last kd bytes (at most its whole data region), then the index file is left
   alone, removed, or cut by ki bytes *)
Inductive ifault := INone | IRm | ICut (ki:N).
Definition ifault_ops (i:ifault) : list op :=
  match i with INone => [] | IRm => [OFsRm (name ++ ext_index)] | ICut ki => [OFsCut (name ++ ext_index) ki] end.

Lemma relx_files w s l c : RelX w s l c -> forall g, fs_get (w_fs w) g = sfs_get (judge_files s) g.
Proof. intros ((_ & Hs & AG) & _) g. unfold judge_files, expected_files. rewrite Hs. apply AG. Qed.
Lemma relx_det w s l c : RelX w s l c -> ss_det s = true.
Proof. intros (_ & _ & _ & _ & _ & _ & D). exact D. Qed.

Theorem crash_data_accepted w s l (kd:N) : RelC w s l -> (kd <= len (encode p l))%N ->
  snd (judge_step s (OFsCut (name ++ ext_data) kd)) (snd (step' w (OFsCut (name ++ ext_data) kd))) = true
  /\ RelX (fst (step' w (OFsCut (name ++ ext_data) kd))) (fst (judge_step s (OFsCut (name ++ ext_data) kd))) l (length (encode p l) - N.to_nat kd).
Proof.
  intros (Hw & Hs & (sr & R & N1 & N2) & Oth & F & DET) Hk.
  pose proof (rh_wf _ _ _ _ _ _ R) as W.
  pose proof (rd_file _ _ _ _ _ _ _ _ (rh_data _ _ _ _ _ _ R)) as [GD _]. rewrite N1 in GD.
  pose proof (rd_ix _ _ _ _ _ _ _ _ (rh_data _ _ _ _ _ _ R)) as [GI _]. rewrite N2 in GI.
  destruct (cut_accepted w s (name ++ ext_data) kd (conj Hw (conj Hs F))) as (OK & CA & D' & FS').
  split; [exact OK|]. rewrite GD in FS'. rewrite (take_cut_region (outer header) (encode p l) kd Hk) in FS'.
  split; [exact CA|]. split; [exact W|]. split; [lia|]. rewrite FS'.
  split; [apply fs_get_put_same|].
  split.
  - right. exists (length (outer [] ++ enc_index (sections p (encode p l)))). rewrite firstn_all.
    rewrite fs_get_put_other by (apply not_eq_sym; apply ext_data_index_neq). exact GI.
  - split; [|rewrite D'; exact DET]. intros g G1 G2. rewrite fs_get_put_other by exact G1. apply Oth; assumption.
Qed.

Theorem crash_index_accepted w s l c (i:ifault) : RelX w s l c ->
  match ifault_ops i with
  | [] => True
  | o :: _ => snd (judge_step s o) (snd (step' w o)) = true /\ RelX (fst (step' w o)) (fst (judge_step s o)) l c
  end.
Proof.
  intros (CA & W & Hc & GD & IS & Oth & DET).
  destruct i as [| |ki]; cbn [ifault_ops]; [exact I| |].
  - destruct (rm_accepted w s (name ++ ext_index) CA) as (OK & CA' & D' & FS').
    split; [exact OK|]. split; [exact CA'|]. split; [exact W|]. split; [exact Hc|]. rewrite FS'.
    destruct (fs_mem (w_fs w) (name ++ ext_index)) eqn:M.
    + split; [rewrite fs_get_del_other by apply ext_data_index_neq; exact GD|].
      split; [left; apply fs_get_del_same|]. split; [|rewrite D'; exact DET].
      intros g G1 G2. rewrite fs_get_del_other by exact G2. apply Oth; assumption.
    + split; [exact GD|]. split; [exact IS|]. split; [exact Oth|rewrite D'; exact DET].
  - destruct (cut_accepted w s (name ++ ext_index) ki CA) as (OK & CA' & D' & FS').
    split; [exact OK|]. split; [exact CA'|]. split; [exact W|]. split; [exact Hc|]. rewrite FS'.
    destruct IS as [ABS|[ci PRE]].
    + rewrite ABS. split; [exact GD|]. split; [left; exact ABS|]. split; [exact Oth|rewrite D'; exact DET].
    + rewrite PRE.
      split; [rewrite fs_get_put_other by apply ext_data_index_neq; exact GD|].
      split.
      * right. rewrite fs_get_put_same. rewrite take_firstn, firstn_firstn. eexists. reflexivity.
      * split; [|rewrite D'; exact DET]. intros g G1 G2. rewrite fs_get_put_other by exact G2. apply Oth; assumption.
Qed.


(* the open that follows a crash: the model recovers, the judge (Layer F's recovery) expects exactly that *)
Theorem open_torn_accepted w s l c popt hdropt cb : RelX w s l c -> reopen_valid l popt hdropt ->
  snd (judge_step s (OOpen name popt hdropt [] cb)) (snd (step' w (OOpen name popt hdropt [] cb))) = true
  /\ Rel (fst (step' w (OOpen name popt hdropt [] cb))) (fst (judge_step s (OOpen name popt hdropt [] cb))) (firstn (complete p c l) l).
Proof.
  intros ((Hw & Hs & AG) & W & Hc & GD & IS & Oth & DET) (NM & H64 & Hopt & HO).
  destruct (torn_open_gen_names p (w_fs w) name hdr popt hdropt cb l c W NM Hc Hh H64 Hp GD IS Hopt HO)
    as (fs' & s' & k & E & Hk & LE & MX & R' & CB & OT & M1 & M2 & PT).
  assert (KC : complete p c l = k) by (apply complete_unique; assumption).
  rewrite KC.
  destruct (recover_cut p l c W Hc) as (k2 & Hk2 & LE2 & MX2 & RC).
  assert (K2 : k2 = k).
  { rewrite <- KC. symmetry. apply complete_unique; assumption. }
  subst k2.
  assert (Wk : wf_series p (firstn k l)) by (apply wf_firstn'; exact W).
  assert (SD : sfs_get (ss_fs s) (name ++ ext_data) = Some (outer header ++ firstn c (encode p l))) by (rewrite <- AG; exact GD).
  cbn [step' step w_fs]. rewrite E. cbn [fst snd].
  unfold judge_step, spec_step. rewrite Hs. cbn [spec_step'].
  unfold spec_open. rewrite (close_handle_closed _ _ s Hs). cbn [existsb].
  change (name ++ s_ext_data) with (name ++ ext_data). rewrite SD.
  pose proof (parse_file_ok (N.of_nat p) hdr (firstn c (encode p l)) Hp Hh) as PF. cbv zeta in PF. fold header in PF.
  rewrite PF. cbn [pf_p pf_user pf_region]. rewrite Nat2N.id.
  assert (PO : match popt with Some q => negb (q =? N.of_nat p)%N | None => false end = false).
  { destruct Hopt as [->| ->]; [reflexivity|]. rewrite N.eqb_refl. reflexivity. }
  rewrite PO, RC. rewrite (wf_lines_of_wf p _ Wk). cbn [negb].
  assert (TK : take (N.of_nat (length (encode p (firstn k l)))) (firstn c (encode p l)) = encode p (firstn k l)).
  { rewrite take_firstn, Nat2N.id, firstn_firstn, Nat.min_l by exact LE.
    rewrite (encode_split p l k) at 1. rewrite firstn_app, Nat.sub_diag, firstn_all. cbn [firstn]. apply app_nil_r. }
  rewrite TK.
  assert (OUT : forall e, e = hdr -> is_out (ROpened (N.of_nat (d_p (s_data s'))) hdr) (ROpened (N.of_nat p) e) = true).
  { intros e ->. cbn [is_out]. rewrite (payload_size_ok _ _ _ _ _ _ R'), N.eqb_refl, bytes_eqb_refl. reflexivity. }
  assert (NP : fs_get (w_fs w) (name ++ ext_part) = None).
  { apply Oth.
    - intros Q. apply app_inv_head in Q. unfold ext_part, ext_index in Q. rewrite <- (app_nil_r ext_data) in Q at 2.
      rewrite <- !app_assoc in Q. apply app_inv_head in Q. discriminate.
    - apply names_part_index. }
  assert (REL : forall cbx, Rel {| w_fs := fs'; w_h := Some s' |}
            {| ss_fs := sfs_del (ss_fs s) (name ++ s_ext_part);
               ss_h := Some {| sh_name := name; sh_p := p; sh_hdr := hdr; sh_caches := []; sh_cb := cbx;
                               sh_rlines := frev (firstn k l); sh_rregion := frev (encode p (firstn k l));
                               sh_full := last_full p (encode p (firstn k l)); sh_dmg := None |};
               ss_orig := sfs_del (ss_orig s) (name ++ ext_data); ss_det := ss_det s |} (firstn k l)).
  { intros cbx. eexists s', _. cbn [w_h w_fs ss_h ss_fs ss_det sh_name sh_p sh_hdr sh_caches sh_dmg sh_rlines sh_rregion sh_full].
    split; [reflexivity|]. split; [reflexivity|]. split; [exact R'|]. split; [exact M1|]. split; [exact M2|].
    split.
    { intros g G1 G2. destruct (list_eq_dec Byte.byte_eq_dec g (name ++ ext_part)) as [->|G3]; [apply PT; exact NP|].
      rewrite OT by assumption. apply Oth; assumption. }
    repeat (split; [reflexivity|]).
    split; [apply frev_rev|]. split; [apply frev_rev|]. split; [apply (last_full_encode p _ Wk)|].
    split; [|exact DET].
    intros g G1 G2. destruct (list_eq_dec Byte.byte_eq_dec g (name ++ s_ext_part)) as [->|G3]; [apply sfs_get_del_same|].
    rewrite sfs_get_del_other by exact G3. rewrite <- AG. apply Oth; assumption. }
  destruct hdropt as [|e].
  - cbn [fst snd]. split; [apply OUT; reflexivity|apply REL].
  - cbn in HO. subst e. rewrite bytes_eqb_refl. cbn [fst snd]. split; [apply OUT; reflexivity|apply REL].
Qed.

(* a whole session: every answer of the model is allowed by the judge, the files of the model are the files the judge
   expects after every step, and the judge never leaves the territory the properties determine *)
Fixpoint accepted (w:world) (s:sstate) (ops:list op) : Prop :=
  match ops with
  | [] => True
  | o :: t => snd (judge_step s o) (snd (step' w o)) = true
              /\ (forall g, fs_get (w_fs (fst (step' w o))) g = sfs_get (judge_files (fst (judge_step s o))) g)
              /\ ss_det (fst (judge_step s o)) = true
              /\ accepted (fst (step' w o)) (fst (judge_step s o)) t
  end.

Lemma rel_det w s l : Rel w s l -> ss_det s = true.
Proof. intros (sr & h & _ & _ & _ & _ & _ & _ & _ & _ & _ & _ & _ & _ & _ & _ & _ & D). exact D. Qed.

Lemma ops_accepted : forall ops w s l, Rel w s l -> Forall sess_op ops -> accepted w s ops.
Proof.
  induction ops as [|o t IH]; intros w s l RL F; [exact I|].
  inversion F as [|? ? SO Ft]; subst.
  destruct (step_accepted w s l o RL SO) as (OK & RL').
  cbn [accepted]. split; [exact OK|]. split; [exact (rel_files _ _ _ RL')|]. split; [exact (rel_det _ _ _ RL')|].
  exact (IH _ _ _ RL' Ft).
Qed.

Theorem session_accepted cb ops : Forall sess_op ops ->
  accepted init_world judge_init (ONew name (N.of_nat p) hdr [] cb :: ops).
Proof.
  intros F. destruct (new_accepted cb) as [OK RL].
  cbn [accepted]. split; [exact OK|]. split; [exact (rel_files _ _ _ RL)|]. split; [exact (rel_det _ _ _ RL)|].
  exact (ops_accepted ops _ _ [] RL F).
Qed.

(* ---- histories with clean close-and-reopen steps in between (C04 at the level of the judge) ---- *)
(* calls that are refused on the closed series, between a close and the next open *)
Inductive rtry := TryNew (p':N) (hdr':list byte) (cb:cbmode) | TryOpenP (q:N) (hdropt:hdropt) (cb:cbmode)
  | TryOpenMissing (name2:fname) (popt:option N) (hdropt:hdropt) (cb:cbmode).     (* an open of another series, one that does not exist *)
Definition try_op (t:rtry) : op :=
  match t with TryNew a b c => ONew name a b [] c | TryOpenP q h c => OOpen name (Some q) h [] c
             | TryOpenMissing n2 a h c => OOpen n2 a h [] c end.
Definition try_valid (t:rtry) : Prop :=
  match t with TryNew _ _ _ => True | TryOpenP q _ _ => q <> N.of_nat p
             | TryOpenMissing n2 _ _ _ => n2 ++ ext_data <> name ++ ext_data /\ n2 ++ ext_data <> name ++ ext_index end.

Lemma tries_accepted : forall tries w s l rest, RelC w s l -> Forall try_valid tries ->
  (forall w' s', RelC w' s' l -> accepted w' s' rest) -> accepted w s (map try_op tries ++ rest).
Proof.
  induction tries as [|t ts IH]; intros w s l rest RC V K; [apply K; exact RC|].
  inversion V as [|? ? Vt Vts]; subst. cbn [map app accepted].
  destruct t as [a b c|q h c|n2 a h c]; cbn [try_op try_valid] in *.
  - destruct (new_refused_accepted w s l a b c RC) as (OK & RC').
    split; [exact OK|]. split; [exact (relc_files _ _ _ RC')|]. split; [destruct RC' as (_ & _ & _ & _ & _ & D); exact D|].
    apply (IH _ _ l rest RC' Vts K).
  - destruct (open_other_p_accepted w s l q h c RC Vt) as (OK & RC').
    split; [exact OK|]. split; [exact (relc_files _ _ _ RC')|]. split; [destruct RC' as (_ & _ & _ & _ & _ & D); exact D|].
    apply (IH _ _ l rest RC' Vts K).
  - destruct Vt as [D1 D2]. destruct (open_missing_other_accepted w s l n2 a h c RC D1 D2) as (OK & RC').
    split; [exact OK|]. split; [exact (relc_files _ _ _ RC')|]. split; [destruct RC' as (_ & _ & _ & _ & _ & D); exact D|].
    apply (IH _ _ l rest RC' Vts K).
Qed.

Inductive hstep := HOp (o:op) | HReopen (popt:option N) (hdropt:hdropt) (cb:cbmode)
  | HCrash (kd:N) (i:ifault) (popt:option N) (hdropt:hdropt) (cb:cbmode)
  | HRefused (tries:list rtry) (popt:option N) (hdropt:hdropt) (cb:cbmode).
Fixpoint flatten (hs:list hstep) : list op :=
  match hs with
  | [] => []
  | HOp o :: t => o :: flatten t
  | HReopen a b c :: t => OClose :: OOpen name a b [] c :: flatten t
  | HCrash kd i a b c :: t => OClose :: OFsCut (name ++ ext_data) kd :: ifault_ops i ++ OOpen name a b [] c :: flatten t
  | HRefused tries a b c :: t => OClose :: map try_op tries ++ OOpen name a b [] c :: flatten t
  end.
Fixpoint hvalid (l:list line) (hs:list hstep) : Prop :=
  match hs with
  | [] => True
  | HOp o :: t => sess_op o /\ hvalid (next_lines l o) t
  | HReopen a b _ :: t => reopen_valid l a b /\ hvalid l t
  | HCrash kd _ a b _ :: t => (kd <= len (encode p l))%N /\ reopen_valid l a b
                              /\ hvalid (firstn (complete p (length (encode p l) - N.to_nat kd) l) l) t
  | HRefused tries a b _ :: t => Forall try_valid tries /\ reopen_valid l a b /\ hvalid l t
  end.

Lemma relc_det w s l : RelC w s l -> ss_det s = true.
Proof. intros (_ & _ & _ & _ & _ & D). exact D. Qed.

Lemma hist_accepted : forall hs w s l, Rel w s l -> hvalid l hs -> accepted w s (flatten hs).
Proof.
  induction hs as [|[o|a b c|kd i a b c|tries a b c] t IH]; intros w s l RL V; [exact I| | | |].
  - destruct V as [SO Vt]. destruct (step_accepted w s l o RL SO) as (OK & RL').
    cbn [flatten accepted]. split; [exact OK|]. split; [exact (rel_files _ _ _ RL')|]. split; [exact (rel_det _ _ _ RL')|].
    exact (IH _ _ _ RL' Vt).
  - destruct V as [RO Vt]. destruct (close_accepted w s l RL) as (OK1 & RC).
    destruct (open_accepted _ _ l a b c RC RO) as (OK2 & RL2).
    cbn [flatten accepted]. split; [exact OK1|]. split; [exact (relc_files _ _ _ RC)|]. split; [exact (relc_det _ _ _ RC)|].
    split; [exact OK2|]. split; [exact (rel_files _ _ _ RL2)|]. split; [exact (rel_det _ _ _ RL2)|].
    exact (IH _ _ _ RL2 Vt).
  - destruct V as (Hkd & RO & Vt). destruct (close_accepted w s l RL) as (OK1 & RC).
    destruct (crash_data_accepted _ _ l kd RC Hkd) as (OK2 & RX).
    cbn [flatten accepted]. split; [exact OK1|]. split; [exact (relc_files _ _ _ RC)|]. split; [exact (relc_det _ _ _ RC)|].
    split; [exact OK2|]. split; [exact (relx_files _ _ _ _ RX)|]. split; [exact (relx_det _ _ _ _ RX)|].
    pose proof (crash_index_accepted _ _ l _ i RX) as CI.
    destruct i as [| |ki]; cbn [ifault_ops app] in *.
    + destruct (open_torn_accepted _ _ l _ a b c RX RO) as (OK3 & RL3).
      cbn [accepted]. split; [exact OK3|]. split; [exact (rel_files _ _ _ RL3)|]. split; [exact (rel_det _ _ _ RL3)|].
      exact (IH _ _ _ RL3 Vt).
    + destruct CI as (OKi & RX2). destruct (open_torn_accepted _ _ l _ a b c RX2 RO) as (OK3 & RL3).
      cbn [accepted]. split; [exact OKi|]. split; [exact (relx_files _ _ _ _ RX2)|]. split; [exact (relx_det _ _ _ _ RX2)|].
      split; [exact OK3|]. split; [exact (rel_files _ _ _ RL3)|]. split; [exact (rel_det _ _ _ RL3)|].
      exact (IH _ _ _ RL3 Vt).
    + destruct CI as (OKi & RX2). destruct (open_torn_accepted _ _ l _ a b c RX2 RO) as (OK3 & RL3).
      cbn [accepted]. split; [exact OKi|]. split; [exact (relx_files _ _ _ _ RX2)|]. split; [exact (relx_det _ _ _ _ RX2)|].
      split; [exact OK3|]. split; [exact (rel_files _ _ _ RL3)|]. split; [exact (rel_det _ _ _ RL3)|].
      exact (IH _ _ _ RL3 Vt).
  - destruct V as (TV & RO & Vt). destruct (close_accepted w s l RL) as (OK1 & RC).
    cbn [flatten accepted]. split; [exact OK1|]. split; [exact (relc_files _ _ _ RC)|]. split; [exact (relc_det _ _ _ RC)|].
    apply (tries_accepted tries _ _ l _ RC TV). intros w' s' RC'.
    destruct (open_accepted _ _ l a b c RC' RO) as (OK2 & RL2).
    cbn [accepted]. split; [exact OK2|]. split; [exact (rel_files _ _ _ RL2)|]. split; [exact (rel_det _ _ _ RL2)|].
    exact (IH _ _ _ RL2 Vt).
Qed.

Theorem history_accepted cb hs : hvalid [] hs ->
  accepted init_world judge_init (ONew name (N.of_nat p) hdr [] cb :: flatten hs).
Proof.
  intros V. destruct (new_accepted cb) as [OK RL].
  cbn [accepted]. split; [exact OK|]. split; [exact (rel_files _ _ _ RL)|]. split; [exact (rel_det _ _ _ RL)|].
  exact (hist_accepted hs _ _ [] RL V).
Qed.
End Session.

(* the premises are satisfiable: payload size 4 (no marker-word condition), two appends, a clean reopen, a refused and an
   accepted append, reads, a crash that cuts the data file inside its last line and removes the index, an append, a reopen *)
Example history_accepted_example :
  let pay := [x01; x02; x03; x04] in
  hvalid [x63] 4 [] [] [HOp (OPush 10 pay); HOp (OPush 70000 pay); HReopen None HdrAny CbNone; HOp (OPush 5 pay); HOp (OPush 70001 pay);
                  HOp (OReadAll (Incl 11) Unb); HOp (OReadN 2 Unb Unb); HOp (ONLines Unb (Excl 70001));
                  HCrash 3 IRm None HdrAny CbNone; HOp OLen; HOp (OPush 70001 pay); HCrash 0 (ICut 5) (Some 4%N) (HdrIs []) CbDeny; HOp OLen;
                  HRefused [TryNew 4 [] CbNone; TryOpenP 5 HdrAny CbNone; TryNew 7 [x01] CbDeny; TryOpenMissing [x7a] None HdrAny CbNone] None HdrAny CbNone; HOp OLen].
Proof.
  cbv zeta.
  assert (NM : forall m, Forall (nm_sec 4) (secs_of m)) by (intros m; apply Forall_forall; intros sct _; apply nm_p4; lia).
  cbn [hvalid next_lines]. unfold reopen_valid.
  repeat match goal with
         | |- _ /\ _ => split
         | |- sess_op _ => constructor
         | |- Forall (nm_sec 4) _ => apply NM
         | |- Forall (try_valid _ _) _ => repeat constructor; cbn [try_valid]; try exact I; try (intros Q; discriminate Q)
         | |- True => exact I
         end; try (vm_compute; reflexivity); try lia; try (left; reflexivity); try (right; reflexivity); try reflexivity;
    try (apply N.leb_le; vm_compute; reflexivity); try (apply N.ltb_lt; vm_compute; reflexivity).
Qed.

(* C17 at the level of the judge, before anything exists: an open of a series that is not there - any name, any demanded payload
   size and header, any cache levels (bucket sizes >= 1) - is answered with an error by the model, accepted by the judge, creates
   no file, and leaves both sides where they were: whatever session follows (e.g. the create) is judged as before *)
Theorem open_missing_accepted name popt hdropt (caches:list N) cb rest :
  existsb (fun B => (B =? 0)%N) caches = false ->
  accepted init_world judge_init rest -> accepted init_world judge_init (OOpen name popt hdropt caches cb :: rest).
Proof.
  intros NZ A.
  assert (E : step' init_world (OOpen name popt hdropt caches cb) = (init_world, RErr ENotFound)).
  { cbn [step' step w_fs init_world]. rewrite (builder_open_missing [] name popt hdropt caches cb eq_refl). reflexivity. }
  assert (J : judge_step judge_init (OOpen name popt hdropt caches cb) = (judge_init, is_err)).
  { unfold judge_step, spec_step, judge_init, spec_init. cbn [ss_h spec_step']. unfold spec_open, close_handle, expected_files.
    cbn [ss_h ss_fs ss_orig ss_det]. rewrite NZ. reflexivity. }
  cbn [accepted]. rewrite E, J. cbn [fst snd is_err].
  split; [reflexivity|]. split; [intros g; reflexivity|]. split; [reflexivity|exact A].
Qed.
