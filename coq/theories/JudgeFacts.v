(* The capstone of "Layer I refines Layer S" at the level of the public API: every session - create a series, then ANY
   sequence of appends (accepted or refused), full and bounded reads, first-n reads, line counts and accessor calls - run on
   the model of the library (World.step', what the correspondence check runs against the implementation) is ACCEPTED BY THE
   JUDGE (Judge.judge_step, the extracted specification that decides whether an observed behaviour satisfies the properties):
   at every step the model's answer lies in the set of answers the judge allows, and the files of the model are, byte for
   byte, the files the judge expects. So on this fragment the judge demands nothing the (repaired) library does not do -
   a judge failure there is a deviation of the code from its model, never a disagreement between model and specification. *)
From Coq Require Import List NArith ZArith Lia Bool Arith ZifyBool ZifyN ZifyNat Sorted.
From Coq Require Import Strings.Byte.
Require Import BS.Bytes BS.Common BS.CommonFacts BS.Api BS.Layout BS.Format BS.FormatFacts BS.Spec BS.SpecStep BS.Known BS.Judge BS.Sections.
Require Import BS.FS BS.FSFacts BS.Meta BS.MetaFacts BS.Header BS.Reader BS.ReaderFacts BS.Index BS.Data BS.DataFacts BS.Seek BS.SeekFacts BS.Series BS.World.
Require Import BS.SeriesFacts BS.ReadAllFacts BS.TotalFacts BS.CountFacts BS.OpenFacts.
Import ListNotations.
Close Scope N_scope. Open Scope nat_scope.

Lemma lines_eqb_refl (l:list line) : lines_eqb l l = true.
Proof.
  unfold lines_eqb. rewrite Nat.eqb_refl. cbn [andb].
  induction l as [|x t IH]; [reflexivity|]. cbn [combine forallb fst snd]. rewrite N.eqb_refl, bytes_eqb_refl. exact IH.
Qed.

Lemma accepts_r_rev p (l:list line) ts pay : accepts_r p (rev l) ts pay = accepts p l ts pay.
Proof.
  unfold accepts_r, accepts. f_equal.
  destruct l as [|x t] using rev_ind; [reflexivity|]. rewrite rev_app_distr, last_opt_snoc. reflexivity.
Qed.

Section Session.
Variables (name:fname) (p:nat) (hdr:list byte).
Let header := params_to_text BSgen.Consts.version (N.of_nat p) ++ hdr.
Hypothesis Hh : (len header <= 65535)%N.

(* the operations of a session on one handle: what the types of the public API admit (timestamps are u64) *)
Inductive sess_op : op -> Prop :=
| so_push ts pay : (ts < 2^64)%N -> sess_op (OPush ts pay)
| so_read lo hi : sess_op (OReadAll lo hi)
| so_first n lo hi : sess_op (OReadFirstN n lo hi)
| so_count lo hi : sess_op (ONLines lo hi)
| so_last : sess_op OLastLine
| so_len : sess_op OLen
| so_empty : sess_op OIsEmpty
| so_range : sess_op ORange
| so_psize : sess_op OPayloadSize.

(* model state and judge state describe the same series holding the lines l *)
Definition Rel (w:world) (s:sstate) (l:list line) : Prop :=
  exists sr h, w_h w = Some sr /\ ss_h s = Some h
    /\ RepH (w_fs w) sr p (outer header) (outer []) l
    /\ of_name (d_file (s_data sr)) = name ++ ext_data /\ of_name (ix_file (d_index (s_data sr))) = name ++ ext_index
    /\ (forall g, g <> name ++ ext_data -> g <> name ++ ext_index -> fs_get (w_fs w) g = None)
    /\ sh_name h = name /\ sh_p h = p /\ sh_hdr h = hdr /\ sh_caches h = [] /\ sh_dmg h = None
    /\ sh_rlines h = rev l /\ sh_rregion h = rev (encode p l) /\ sh_full h = full_after p None l
    /\ ss_fs s = [] /\ ss_det s = true.

(* the files of the model are the files the judge expects *)
Lemma rel_files w s l : Rel w s l -> forall g, fs_get (w_fs w) g = sfs_get (judge_files s) g.
Proof.
  intros (sr & h & Hw & Hs & R & N1 & N2 & Oth & A1 & A2 & A3 & A4 & A5 & A6 & A7 & A8 & A9 & A10) g.
  pose proof (rd_file _ _ _ _ _ _ _ _ (rh_data _ _ _ _ _ _ R)) as [GD _].
  pose proof (rd_ix _ _ _ _ _ _ _ _ (rh_data _ _ _ _ _ _ R)) as [GI _].
  rewrite N1 in GD. rewrite N2 in GI.
  unfold judge_files, expected_files. rewrite Hs, A9. unfold handle_files. rewrite A5, A4, A1, A2, A3. cbn [flat_map].
  assert (RG : sh_region h = encode p l) by (unfold sh_region; rewrite A7, frev_rev, rev_involutive; reflexivity).
  rewrite RG. unfold put_all. cbn [fold_left fst snd sfs_put].
  change (name ++ s_ext_data) with (name ++ ext_data). change (name ++ s_ext_index) with (name ++ ext_index).
  rewrite (bytes_eqb_neq (name ++ ext_data) (name ++ ext_index)) by apply ext_data_index_neq.
  cbn [sfs_get].
  destruct (list_eq_dec Byte.byte_eq_dec g (name ++ ext_data)) as [->|G1].
  - rewrite bytes_eqb_refl. rewrite GD. reflexivity.
  - rewrite (bytes_eqb_neq (name ++ ext_data) g) by congruence.
    destruct (list_eq_dec Byte.byte_eq_dec g (name ++ ext_index)) as [->|G2].
    + rewrite bytes_eqb_refl. rewrite GI. reflexivity.
    + rewrite (bytes_eqb_neq (name ++ ext_index) g) by congruence. apply Oth; assumption.
Qed.

Lemma rel_keep w s l sr : Rel w s l -> w_h w = Some sr -> Rel {| w_fs := w_fs w; w_h := Some sr |} s l.
Proof.
  intros (sr0 & h & Hw & Rest) E. rewrite Hw in E. inversion E; subst sr0.
  exists sr, h. cbn [w_h w_fs]. split; [reflexivity|]. exact Rest.
Qed.

(* one operation of a session: the model's answer is allowed by the judge, and the two states stay related *)
Theorem step_accepted w s l o : Rel w s l -> sess_op o ->
  exists l', snd (judge_step s o) (snd (step' w o)) = true /\ Rel (fst (step' w o)) (fst (judge_step s o)) l'.
Proof.
  intros RL SO.
  destruct RL as (sr & h & Hw & Hs & R & N1 & N2 & Oth & A1 & A2 & A3 & A4 & A5 & A6 & A7 & A8 & A9 & A10).
  assert (LN : sh_lines h = l) by (unfold sh_lines; rewrite A6, frev_rev, rev_involutive; reflexivity).
  assert (RG : sh_region h = encode p l) by (unfold sh_region; rewrite A7, frev_rev, rev_involutive; reflexivity).
  assert (KEEP : Rel w s l).
  { exists sr, h. repeat (split; [assumption|]). assumption. }
  assert (JS : forall o', match o' with ONew _ _ _ _ _ | OOpen _ _ _ _ _ | OClose => False | _ => True end ->
               judge_step s o' = spec_step' j_data_header j_cache_header s o').
  { intros o' Ho. unfold judge_step, spec_step. rewrite Hs, A5. reflexivity. }
  destruct SO as [ts pay Hts|lo hi|n lo hi|lo hi| | | | |].
  - (* push *)
    rewrite JS by exact I. cbn [step' step spec_step'].
    unfold spec_push, with_h. rewrite Hs. rewrite A2, A6, accepts_r_rev.
    pose proof (push_line_ok (w_fs w) sr p _ _ l ts pay R Hts) as PL.
    destruct (accepts p l ts pay) eqn:AC.
    + destruct PL as (fs' & sr' & E & R' & Oth' & M1 & M2).
      destruct (tail_bytes p (sh_full h) (ts, pay)) as [b f'] eqn:TB.
      exists (l ++ [(ts, pay)]). unfold with_handle. rewrite Hw. erewrite mbind_ok by exact E. cbn [ret fst snd is_out].
      split; [reflexivity|].
      eexists sr', _. cbn [w_h w_fs ss_h set_h ss_fs ss_det].
      split; [reflexivity|]. split; [reflexivity|]. split; [exact R'|]. split; [rewrite M1; exact N1|]. split; [rewrite M2; exact N2|].
      split.
      { intros g G1 G2. rewrite Oth' by (rewrite ?N1, ?N2; assumption). apply Oth; assumption. }
      cbn [sh_name sh_p sh_hdr sh_caches sh_dmg sh_rlines sh_rregion sh_full].
      split; [exact A1|]. split; [reflexivity|]. split; [exact A3|]. split; [exact A4|]. split; [reflexivity|].
      split; [rewrite rev_app_distr; reflexivity|].
      rewrite A8 in TB.
      split.
      { rewrite A7, rev_append_rev, <- rev_app_distr, encode_snoc, TB. reflexivity. }
      split; [rewrite full_after_snoc, TB; reflexivity|]. split; assumption.
    + destruct PL as (e & E). exists l.
      unfold with_handle. rewrite Hw. erewrite mbind_err by exact E. cbn [fst snd is_err].
      split; [reflexivity|].
      exact (rel_keep w s l sr KEEP Hw).
  - (* read_all *)
    rewrite JS by exact I. cbn [step' step spec_step']. unfold with_h. rewrite Hs, LN. cbn [fst snd].
    exists l.
    unfold with_handle, reading. rewrite Hw.
    destruct (read_all_ok (w_fs w) sr p _ _ l R lo hi) as [E|[SE E]].
    + erewrite mbind_ok by exact E. cbn [ret fst snd]. split.
      * unfold lines_or_nothing. destruct (select lo hi l) eqn:S0; [reflexivity|]. cbn [is_out]. apply lines_eqb_refl.
      * exact (rel_keep w s l sr KEEP Hw).
    + erewrite mbind_err by exact E. cbn [fst snd]. rewrite SE. split; [reflexivity|].
      exact (rel_keep w s l sr KEEP Hw).
  - (* read_first_n *)
    rewrite JS by exact I. cbn [step' step spec_step']. unfold with_h. rewrite Hs, LN. cbn [fst snd].
    exists l.
    unfold with_handle, reading. rewrite Hw.
    destruct (N.eqb_spec n 0) as [->|Hn].
    + unfold read_first_n. cbn [N.eqb]. unfold mbind, ret. cbn [fst snd]. split; [reflexivity|].
      exact (rel_keep w s l sr KEEP Hw).
    + destruct (read_first_n_ok (w_fs w) sr p _ _ l R n lo hi ltac:(lia)) as [E|[SE E]].
      * erewrite mbind_ok by exact E. cbn [ret fst snd]. split.
        -- unfold lines_or_nothing. destruct (firstn _ _) eqn:S0; [reflexivity|]. cbn [is_out]. apply lines_eqb_refl.
        -- exact (rel_keep w s l sr KEEP Hw).
      * erewrite mbind_err by exact E. cbn [fst snd]. rewrite SE. rewrite firstn_nil. split; [reflexivity|].
        exact (rel_keep w s l sr KEEP Hw).
  - (* n_lines *)
    rewrite JS by exact I. cbn [step' step spec_step']. unfold with_h. rewrite Hs, LN, RG, A2. cbn [fst snd].
    exists l.
    unfold with_handle, reading. rewrite Hw.
    destruct (n_lines_ok (w_fs w) sr p _ _ l R lo hi) as [(k & E & Hk)|[[SE E]|(SE & _ & E)]].
    + erewrite mbind_ok by exact E. cbn [ret fst snd]. split.
      * destruct (select lo hi l) as [|x t] eqn:S0.
        -- subst k. reflexivity.
        -- destruct (n_lines_within_bound (w_fs w) sr p _ _ l R lo hi k E) as [B1 B2]; [rewrite S0; discriminate|].
           rewrite S0 in B1, B2. apply andb_true_intro. split; apply N.leb_le; assumption.
      * exact (rel_keep w s l sr KEEP Hw).
    + erewrite mbind_err by exact E. cbn [fst snd]. rewrite SE. split; [reflexivity|].
      exact (rel_keep w s l sr KEEP Hw).
    + erewrite mbind_ok by exact E. cbn [ret fst snd]. rewrite SE. split; [reflexivity|].
      exact (rel_keep w s l sr KEEP Hw).
  - (* last_line *)
    rewrite JS by exact I. cbn [step' step spec_step']. unfold with_h. rewrite Hs, LN. cbn [fst snd].
    exists l.
    unfold with_handle, reading. rewrite Hw. pose proof (last_line_ok (w_fs w) sr p _ _ l R) as E.
    destruct (last_opt l) as [x|] eqn:LO.
    + erewrite mbind_ok by exact E. cbn [ret fst snd is_out]. rewrite N.eqb_refl, bytes_eqb_refl. split; [reflexivity|].
      exact (rel_keep w s l sr KEEP Hw).
    + erewrite mbind_err by exact E. cbn [fst snd is_err]. split; [reflexivity|].
      exact (rel_keep w s l sr KEEP Hw).
  - (* len *)
    rewrite JS by exact I. cbn [step' step spec_step']. unfold with_h. rewrite Hs, LN. cbn [fst snd].
    exists l.
    unfold with_handle, reading, lift. rewrite Hw. rewrite (len_ok _ _ _ _ _ _ R). unfold mbind, ret. cbn [fst snd is_out].
    rewrite N.eqb_refl. split; [reflexivity|].
    exact (rel_keep w s l sr KEEP Hw).
  - (* is_empty *)
    rewrite JS by exact I. cbn [step' step spec_step']. unfold with_h. rewrite Hs, LN. cbn [fst snd].
    exists l.
    unfold with_handle, reading, lift. rewrite Hw. rewrite (len_ok _ _ _ _ _ _ R). unfold mbind, ret. cbn [fst snd is_out].
    split.
    + destruct l as [|x t]; [reflexivity|]. unfold len. cbn [length]. replace (N.of_nat (S (length t)) =? 0)%N with false by (symmetry; apply N.eqb_neq; lia). reflexivity.
    + exact (rel_keep w s l sr KEEP Hw).
  - (* range *)
    rewrite JS by exact I. cbn [step' step spec_step']. unfold with_h. rewrite Hs, LN. cbn [fst snd].
    exists l.
    unfold with_handle, reading. rewrite Hw. rewrite (range_ok _ _ _ _ _ _ R). unfold mbind, ret. cbn [fst snd is_out].
    split.
    + destruct (first_last l) as [[a b]|]; [rewrite !N.eqb_refl; reflexivity|reflexivity].
    + exact (rel_keep w s l sr KEEP Hw).
  - (* payload_size *)
    rewrite JS by exact I. cbn [step' step spec_step']. unfold with_h. rewrite Hs, A2. cbn [fst snd].
    exists l.
    unfold with_handle, reading. rewrite Hw. rewrite (payload_size_ok _ _ _ _ _ _ R). unfold mbind, ret. cbn [fst snd is_out].
    rewrite N.eqb_refl. split; [reflexivity|].
    exact (rel_keep w s l sr KEEP Hw).
Qed.

(* creating the series in an empty directory: accepted, and the two states are related for the empty list *)
Theorem new_accepted cb :
  snd (judge_step judge_init (ONew name (N.of_nat p) hdr [] cb)) (snd (step' init_world (ONew name (N.of_nat p) hdr [] cb))) = true
  /\ Rel (fst (step' init_world (ONew name (N.of_nat p) hdr [] cb))) (fst (judge_step judge_init (ONew name (N.of_nat p) hdr [] cb))) [].
Proof.
  destruct (series_new_ok [] name p hdr cb eq_refl eq_refl Hh) as (fs' & sr & E & R & _ & N1 & N2 & Oth).
  cbn [step' step w_fs init_world]. rewrite E.
  unfold judge_step, spec_step, judge_init, spec_init. cbn [ss_h spec_step'].
  unfold spec_new, close_handle, expected_files. cbn [ss_h ss_fs ss_orig ss_det existsb sfs_mem sfs_get any_stale orb].
  rewrite Nat2N.id.
  change (j_data_header p hdr) with header.
  replace (65535 <? len header)%N with false by (symmetry; apply N.ltb_ge; exact Hh).
  cbn [fst snd is_out]. rewrite (payload_size_ok _ _ _ _ _ _ R), N.eqb_refl, bytes_eqb_refl. split; [reflexivity|].
  eexists sr, _. cbn [w_h w_fs ss_h ss_fs ss_det sh_name sh_p sh_hdr sh_caches sh_dmg sh_rlines sh_rregion sh_full].
  split; [reflexivity|]. split; [reflexivity|]. split; [exact R|]. split; [exact N1|]. split; [exact N2|].
  split; [intros g G1 G2; rewrite Oth by assumption; reflexivity|].
  repeat (split; [reflexivity|]). reflexivity.
Qed.

(* a whole session: every answer of the model is allowed by the judge, the files of the model are the files the judge
   expects after every step, and the judge never leaves the territory the properties determine *)
Fixpoint accepted (w:world) (s:sstate) (ops:list op) : Prop :=
  match ops with
  | [] => True
  | o :: t => snd (judge_step s o) (snd (step' w o)) = true
              /\ (forall g, fs_get (w_fs (fst (step' w o))) g = sfs_get (judge_files (fst (judge_step s o))) g)
              /\ ss_det (fst (judge_step s o)) = true
              /\ accepted (fst (step' w o)) (fst (judge_step s o)) t
  end.

Lemma rel_det w s l : Rel w s l -> ss_det s = true.
Proof. intros (sr & h & _ & _ & _ & _ & _ & _ & _ & _ & _ & _ & _ & _ & _ & _ & _ & D). exact D. Qed.

Lemma ops_accepted : forall ops w s l, Rel w s l -> Forall sess_op ops -> accepted w s ops.
Proof.
  induction ops as [|o t IH]; intros w s l RL F; [exact I|].
  inversion F as [|? ? SO Ft]; subst.
  destruct (step_accepted w s l o RL SO) as (l' & OK & RL').
  cbn [accepted]. split; [exact OK|]. split; [exact (rel_files _ _ _ RL')|]. split; [exact (rel_det _ _ _ RL')|].
  exact (IH _ _ l' RL' Ft).
Qed.

Theorem session_accepted cb ops : Forall sess_op ops ->
  accepted init_world judge_init (ONew name (N.of_nat p) hdr [] cb :: ops).
Proof.
  intros F. destruct (new_accepted cb) as [OK RL].
  cbn [accepted]. split; [exact OK|]. split; [exact (rel_files _ _ _ RL)|]. split; [exact (rel_det _ _ _ RL)|].
  exact (ops_accepted ops _ _ [] RL F).
Qed.
End Session.
