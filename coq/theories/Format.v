(* Layer F: the documented v1 file format, with its own fixed constants (never the generated
   ones): reference encoder, reference streaming decoder, section list, index encoding.
   This is the "independent reader" of C07 and the reference encoder of C15. *)
From Coq Require Import List NArith Bool Arith.
From Coq Require Import Strings.Byte.
Require Import BS.Bytes BS.Common BS.Api BS.Layout.
Import ListNotations.
Close Scope N_scope. Open Scope nat_scope.

Definition MAXD : N := 65534%N.              (* largest delta a data line can carry *)

(* ---- encoder ---- *)
Definition enc_section (p:nat) (t:N) : list byte := concat (Layout.sec_slots p t).
Definition enc_line (d:N) (pay:list byte) : list byte := le_enc 2 d ++ pay.

(* what the writer appends for one more line, given the last full timestamp in the file *)
Definition tail_bytes (p:nat) (full:option N) (x:line) : list byte * option N :=
  match full with
  | Some f => if (fst x - f <=? MAXD)%N then (enc_line (fst x - f) (snd x), Some f)
              else (enc_section p (fst x) ++ enc_line 0 (snd x), Some (fst x))
  | None => (enc_section p (fst x) ++ enc_line 0 (snd x), Some (fst x))
  end.
Fixpoint encode_from (p:nat) (full:option N) (l:list line) : list byte :=
  match l with
  | [] => []
  | x :: t => let '(b, f') := tail_bytes p full x in b ++ encode_from p f' t
  end.
Definition encode (p:nat) (l:list line) : list byte := encode_from p None l.

(* ---- decoder: one slot at a time ---- *)
Inductive fstate :=
| FStart                                          (* nothing yet: a data line here is malformed *)
| FNormal (full:N)
| FOne (full:option N) (a:slot)
| FSec (full:option N) (a b:slot) (got:list slot)
| FBad.

Record fscan := {
  f_st : fstate;
  f_idx : nat;                    (* slots consumed so far *)
  f_lines : list line;            (* reversed *)
  f_secs : list (N * N);          (* (timestamp, byte offset) of every complete section, reversed *)
  f_good : nat;                   (* slots up to and including the last complete data line *)
  f_sec_start : nat               (* slot index where the section being read started *)
}.
Definition fscan0 : fscan :=
  {| f_st := FStart; f_idx := 0; f_lines := []; f_secs := []; f_good := 0; f_sec_start := 0 |}.

Definition full_opt (s:fstate) : option N :=
  match s with FNormal f => Some f | FOne f _ => f | FSec f _ _ _ => f | _ => None end.

Definition fstep (p:nat) (s:fscan) (x:slot) : fscan :=
  let i := f_idx s in
  let L := p + 2 in
  let adv st := {| f_st := st; f_idx := S i; f_lines := f_lines s; f_secs := f_secs s;
                   f_good := f_good s; f_sec_start := f_sec_start s |} in
  let sec_done t := {| f_st := FNormal t; f_idx := S i; f_lines := f_lines s;
                       f_secs := (t, N.of_nat (f_sec_start s * L)) :: f_secs s;
                       f_good := f_good s; f_sec_start := f_sec_start s |} in
  match f_st s with
  | FStart =>
      if Layout.is_marker x
      then {| f_st := FOne None x; f_idx := S i; f_lines := f_lines s; f_secs := f_secs s;
              f_good := f_good s; f_sec_start := i |}
      else adv FBad
  | FNormal full =>
      if Layout.is_marker x
      then {| f_st := FOne (Some full) x; f_idx := S i; f_lines := f_lines s; f_secs := f_secs s;
              f_good := f_good s; f_sec_start := i |}
      else {| f_st := FNormal full; f_idx := S i;
              f_lines := ((full + le_dec (firstn 2 x))%N, skipn 2 x) :: f_lines s;
              f_secs := f_secs s; f_good := S i; f_sec_start := f_sec_start s |}
  | FOne full a =>
      if Layout.is_marker x
      then (if Layout.ncont p =? 0 then sec_done (Layout.read_ts p a x []) else adv (FSec full a x []))
      else adv FBad
  | FSec full a b got =>
      let got' := got ++ [x] in
      if length got' =? Layout.ncont p then sec_done (Layout.read_ts p a b got') else adv (FSec full a b got')
  | FBad => adv FBad
  end.

Definition scan (p:nat) (region:list byte) : fscan := fold_left (fstep p) (chunks (p + 2) region) fscan0.

(* a region is a legal data region iff the decoder ends at a line boundary outside a section *)
Definition decode (p:nat) (region:list byte) : option (list line) :=
  let s := scan p region in
  match f_st s with
  | FNormal _ => if (length region mod (p + 2) =? 0) && (f_good s =? f_idx s) then Some (frev (f_lines s)) else None
  | FStart => match region with [] => Some [] | _ => None end
  | _ => None
  end.

(* C05: what survives of a (possibly torn) region: the completely written lines, and the number
   of bytes they occupy. None when the region is not a prefix of a legal region (damage that is
   not a torn tail). *)
Definition recover (p:nat) (region:list byte) : option (list line * N) :=
  let s := scan p region in
  match f_st s with
  | FBad => None
  | _ => Some (frev (f_lines s), N.of_nat (f_good s * (p + 2)))
  end.

Definition sections (p:nat) (region:list byte) : list (N * N) := frev (f_secs (scan p region)).
Definition last_full (p:nat) (region:list byte) : option N := full_opt (f_st (scan p region)).

(* ---- index file ---- *)
Definition enc_index (es:list (N * N)) : list byte :=
  concat (map (fun e => le_enc 8 (fst e) ++ le_enc 8 (snd e)) es).
(* outer header of a file: u16 length, two line feeds, header bytes *)
Definition enc_outer (header:list byte) : list byte :=
  le_enc 2 (len header) ++ ["010"; "010"]%byte ++ header.
Definition index_file (p:nat) (region:list byte) : list byte := enc_outer [] ++ enc_index (sections p region).

(* ---- file header (documented layout): u16 length | "\n\n" | header;
        header of a data file = u32 text length | ASCII preamble | user header.
        The preamble states the payload size between two fixed phrases. ---- *)
Definition anchor_size_start : list byte :=
  ["F";"o";"r";" ";"t";"h";"i";"s";" ";"f";"i";"l";"e";" ";"t";"h";"a";"t";" ";"i";"s";":";" "]%byte.
Definition anchor_size_end : list byte := [" ";"b";"y";"t";"e";"s";"."]%byte.
Definition anchor_version_start : list byte :=
  ["T";"h";"i";"s";" ";"i";"s";" ";"a";" ";"b";"y";"t";"e";"s";"e";"r";"i";"e";"s";" "]%byte.
Definition anchor_version_end : list byte := [" ";"f";"i";"l";"e";","]%byte.

Definition between (a b:list byte) (text:list byte) : option (list byte) :=
  match find_sub a text, find_sub b text with
  | Some s, Some e => let s' := (s + len a)%N in if (s' <=? e)%N then Some (slice s' e text) else None
  | _, _ => None
  end.
Record parsed := { pf_p : nat; pf_user : list byte; pf_region : list byte; pf_header_len : N }.
Definition parse_file (file:list byte) : option parsed :=
  if (len file <? 4)%N then None else
  let hl := le_dec (firstn 2 file) in
  if (len file <? 4 + hl)%N then None else
  let header := slice 4 (4 + hl) file in
  if (len header <? 4)%N then None else
  let tl := le_dec (firstn 4 header) in
  if (len header <? 4 + tl)%N then None else
  let text := slice 4 (4 + tl) header in
  match between anchor_version_start anchor_version_end text, between anchor_size_start anchor_size_end text with
  | Some v, Some s =>
      match parse_dec 65536 v, parse_dec U64 s with
      | Some 1%N, Some p => Some {| pf_p := N.to_nat p; pf_user := drop (4 + tl) header;
                                   pf_region := drop (4 + hl) file; pf_header_len := (4 + hl)%N |}
      | _, _ => None
      end
  | _, _ => None
  end.
