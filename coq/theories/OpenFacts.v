(* C04: reopening a series that was closed cleanly re-establishes the representation invariant for
   the same list of lines and leaves every file as it is. Covers FileWithHeader::open_existing,
   FileWithInlineMeta::new (the tail repairs find nothing to repair), last_meta_timestamp,
   Index::open_existing / check_and_repair, the last-line read, TimeRange::from_data. *)
From Coq Require Import List NArith ZArith Lia Bool Arith ZifyBool ZifyN ZifyNat Sorted.
From Coq Require Import Strings.Byte.
Require Import BS.Bytes BS.Common BS.CommonFacts BS.Api BS.Layout BS.Format BS.FormatFacts BS.Spec BS.SpecStep BS.Sections.
Require Import BS.FS BS.FSFacts BS.Meta BS.MetaFacts BS.Header BS.Reader BS.ReaderFacts BS.Index BS.Data BS.DataFacts BS.Seek BS.SeekFacts.
Require Import BS.Series BS.SeriesFacts BS.RangeFacts BS.RangeRead BS.SampleFacts BS.ReadAllFacts BS.TotalFacts BS.ExtractFacts BS.LastMetaFacts BS.World.
Require BSgen.Consts.
Import ListNotations.
Close Scope N_scope. Open Scope nat_scope.
Arguments N.add : simpl never. Arguments N.mul : simpl never. Arguments N.sub : simpl never.
Arguments N.ltb : simpl never. Arguments N.leb : simpl never. Arguments N.eqb : simpl never.
Arguments N.div : simpl never. Arguments N.modulo : simpl never.

(* ---- writing back what is already there changes nothing ---- *)
Lemma fs_put_raw_same : forall fs f c, fs_raw fs f = Some c -> fs_put_raw fs f c = fs.
Proof.
  induction fs as [|[g d] t IH]; intros f c H; cbn [fs_raw fs_put_raw] in *; [discriminate|].
  destruct (bytes_eqb g f); [inversion H; reflexivity|]. rewrite IH by exact H. reflexivity.
Qed.
Lemma fs_put_same fs f c : fs_get fs f = Some c -> fs_put fs f c = fs.
Proof.
  intros H. unfold fs_put. apply fs_put_raw_same. rewrite (fs_get_raw _ _ _ H). rewrite frev_rev. reflexivity.
Qed.
Lemma set_file_len_same fs f c : fs_get fs f = Some c -> set_file_len f (len c) fs = (fs, Ok tt).
Proof.
  intros H. unfold set_file_len. rewrite H. rewrite take_all, N.sub_diag. cbn [N.to_nat repeat]. rewrite app_nil_r.
  rewrite (fs_put_same _ _ _ H). reflexivity.
Qed.
Lemma of_set_len_same fs o hdr region : file_is fs o hdr region -> of_set_len o (len region) fs = (fs, Ok tt).
Proof.
  intros [G O]. unfold of_set_len. rewrite O. replace (len region + len hdr)%N with (len (hdr ++ region)) by (rewrite len_app; lia).
  apply set_file_len_same. exact G.
Qed.

Lemma firstn_app_exact {A} (a b:list A) : firstn (length a) (a ++ b) = a.
Proof. rewrite firstn_app, Nat.sub_diag, firstn_all. cbn [firstn]. apply app_nil_r. Qed.

(* ---- FileWithHeader::open_existing ---- *)
Definition outer (header:list byte) : list byte := le_enc 2 (len header) ++ BSgen.Consts.line_ends ++ header.

Lemma fwh_open_ok fs path header region : (len header <= 65535)%N ->
  fs_get fs path = Some (outer header ++ region) ->
  fwh_open path fs = (fs, Ok ({| of_name := path; of_off := len (outer header) |}, header))
  /\ file_is fs {| of_name := path; of_off := len (outer header) |} (outer header) region.
Proof.
  intros Hl G. split; [|split; [exact G|reflexivity]].
  unfold fwh_open. assert (EX : exists_file path fs = (fs, Ok true)).
  { unfold exists_file, fs_mem. rewrite (fs_get_raw _ _ _ G). reflexivity. }
  erewrite mbind_ok by exact EX. cbn [negb].
  assert (LO : len (outer header) = (len header + user_header_starts)%N).
  { unfold outer, user_header_starts, len. rewrite !app_length, le_enc_length. lia. }
  assert (R1 : read_at path 0 2 fs = (fs, Ok (le_enc 2 (len header)))).
  { unfold read_at. rewrite G. cbn [N.eqb]. replace (2 =? 0)%N with false by reflexivity.
    replace (0 + 2 <=? len (outer header ++ region))%N with true
      by (symmetry; apply N.leb_le; rewrite len_app, LO; unfold user_header_starts; lia).
    f_equal. f_equal. unfold slice. rewrite drop_skipn, take_firstn. change (N.to_nat 0) with 0. cbn [skipn]. unfold outer.
    replace (N.to_nat (0 + 2 - 0)) with (length (le_enc 2 (len header))) by (rewrite le_enc_length; lia).
    rewrite <- app_assoc. apply firstn_app_exact. }
  erewrite mbind_ok by exact R1.
  rewrite le_dec_enc by (cbn; lia).
  assert (R2 : read_at path user_header_starts (len header) fs = (fs, Ok header)).
  { unfold read_at. rewrite G. destruct (len header =? 0)%N eqn:Z.
    - apply N.eqb_eq in Z. destruct header; [reflexivity|discriminate].
    - replace (user_header_starts + len header <=? len (outer header ++ region))%N with true
        by (symmetry; apply N.leb_le; rewrite len_app, LO; lia).
      f_equal. f_equal. unfold slice. rewrite drop_skipn, take_firstn. unfold outer.
      replace (N.to_nat user_header_starts) with (length (le_enc 2 (len header) ++ BSgen.Consts.line_ends))
        by (rewrite app_length, le_enc_length; unfold user_header_starts, len; lia).
      rewrite app_assoc, <- app_assoc. rewrite skipn_app, skipn_all, Nat.sub_diag. cbn [skipn app].
      replace (N.to_nat (user_header_starts + len header - user_header_starts)) with (length header) by (unfold len; lia).
      apply firstn_app_exact. }
  erewrite mbind_ok by exact R2.
  erewrite mbind_ok by (apply (file_len_ok _ _ _ G)).
  replace (len (outer header ++ region) <? len header + user_header_starts)%N with false
    by (symmetry; apply N.ltb_ge; rewrite len_app, LO; lia).
  rewrite LO. reflexivity.
Qed.

(* ---- FileWithInlineMeta::new on an intact file: nothing to repair ---- *)
Section Clean.
Variable p : nat.
Notation L := (p + 2).

(* what removed_partial_meta_at_end looks at: the last K slots and one marker slot after them *)
Definition tail_pairs (region:list byte) : list (slot * slot) :=
  pairs (chunks L (slice (len region - metainfo_size p) (len region) region ++ [pre0; pre1] ++ repeat x00 p)).
Definition tail_clean (region:list byte) : Prop :=
  position (fun ab : slot * slot => Meta.is_marker (fst ab) && Meta.is_marker (snd ab)) (tail_pairs region) = None.

Lemma fwim_new_clean fs o hdr region :
  file_is fs o hdr region -> length region mod L = 0 ->
  (region = [] \/ (metainfo_size p < len region)%N /\ tail_clean region) ->
  fwim_new o p fs = (fs, Ok tt).
Proof.
  intros FI Hm H. unfold fwim_new. erewrite mbind_ok by (apply (of_len_ok _ _ _ _ FI)).
  destruct H as [->|[Hlen TC]]; [reflexivity|].
  replace (len region =? 0)%N with false by (symmetry; apply N.eqb_neq; lia).
  assert (RI : repair_incomplete_last_write o p fs = (fs, Ok tt)).
  { unfold repair_incomplete_last_write. erewrite mbind_ok by (apply (of_len_ok _ _ _ _ FI)).
    assert (Z : (len region mod line_size p = 0)%N).
    { unfold len, line_size. rewrite <- Nat2N.inj_mod. rewrite Hm. reflexivity. }
    rewrite Z. reflexivity. }
  erewrite mbind_ok by exact RI.
  assert (OM : repaired_is_only_meta o p fs = (fs, Ok false)).
  { unfold repaired_is_only_meta. erewrite mbind_ok by (apply (of_len_ok _ _ _ _ FI)).
    replace (len region <=? metainfo_size p)%N with false by (symmetry; apply N.leb_gt; exact Hlen). reflexivity. }
  erewrite mbind_ok by exact OM. cbv iota.
  assert (RP : removed_partial_meta_at_end o p fs = (fs, Ok false)).
  { unfold removed_partial_meta_at_end. erewrite mbind_ok by (apply (of_len_ok _ _ _ _ FI)).
    replace (len region <? metainfo_size p)%N with false by (symmetry; apply N.ltb_ge; lia).
    erewrite mbind_ok by (apply (of_read_at_ok _ _ _ _ _ _ FI); lia).
    replace (len region - metainfo_size p + metainfo_size p)%N with (len region) by lia.
    unfold tail_clean, tail_pairs in TC. rewrite TC. reflexivity. }
  erewrite mbind_ok by exact RP. cbv iota.
  assert (RS : removed_start_of_meta_at_end o p fs = (fs, Ok false)).
  { unfold removed_start_of_meta_at_end. erewrite mbind_ok by (apply (of_len_ok _ _ _ _ FI)).
    replace (len region <? metainfo_size p)%N with false by (symmetry; apply N.ltb_ge; lia).
    erewrite mbind_ok; [reflexivity|]. apply (of_read_at_ok _ _ _ _ _ _ FI).
    unfold metainfo_size in *. assert (2 <= lines_per_metainfo p) by (rewrite K_eq; unfold Layout.K; lia). nia. }
  erewrite mbind_ok by exact RS. reflexivity.
Qed.
End Clean.

(* ---- the last full timestamp ---- *)
Section LastMeta.
Variable p : nat.
Notation L := (p + 2).

Definition meta_window : N :=
  next_multiple_of (N.max BSgen.Consts.last_meta_window (BSgen.Consts.last_meta_overlap_factor * metainfo_size p)) (line_size p).

(* files that fit the search window are scanned in one piece *)
Lemma last_meta_short l : wf_series p l -> (len (encode p l) <= meta_window)%N ->
  last_meta_timestamp p (encode p l) = Ok (full_after p None l).
Proof.
  intros W Hs. unfold last_meta_timestamp. fold meta_window.
  replace (len (encode p l) - meta_window)%N with 0%N by lia.
  unfold last_meta_fuel. cbn [last_meta_loop].
  rewrite N.add_0_l, N.min_r by exact Hs.
  destruct (0 =? len (encode p l))%N eqn:Z.
  - apply N.eqb_eq in Z. destruct l as [|x t]; [reflexivity|].
    exfalso. destruct (full_after_cons_none p x t) as [f' FA].
    pose proof (encode_length p (x :: t) (wf_payloads p _ W)) as EL. unfold len in Z. rewrite EL in Z.
    rewrite slots_from_lines in Z. cbn [length] in Z. lia.
  - rewrite (extract_entries_encode p l W). cbn [bind].
    rewrite (sections_encode p l W). rewrite (last_sec_full p l None 0).
    destruct (last_opt (secs_from p None 0 l)) as [e|] eqn:LO; [reflexivity|].
    exfalso. destruct l as [|x t]; [apply N.eqb_neq in Z; apply Z; reflexivity|].
    cbn [secs_from] in LO. rewrite last_opt_cons in LO. destruct (last_opt _); discriminate.
Qed.
End LastMeta.

(* ---- Index::open_existing on an index that matches the data ---- *)
Definition entry_ok (e:entry) : Prop := (fst e < 2^64)%N /\ (snd e < 2^64)%N.

Lemma dec_enc_entry e : entry_ok e -> dec_entry (enc_entry e) = e.
Proof.
  intros [H1 H2]. unfold dec_entry, enc_entry. destruct e as [a b]. cbn [fst snd] in *.
  rewrite <- (le_enc_length 8 a) at 1. rewrite firstn_app_exact.
  rewrite <- (le_enc_length 8 a) at 2. rewrite skipn_app, skipn_all, Nat.sub_diag. cbn [skipn app].
  rewrite !le_dec_enc by (cbn; lia). reflexivity.
Qed.
Lemma enc_index_entries es : enc_index es = concat (map enc_entry es).
Proof. reflexivity. Qed.
Lemma enc_entry_length e : length (enc_entry e) = 16.
Proof. unfold enc_entry. rewrite app_length, !le_enc_length. reflexivity. Qed.
Lemma enc_index_length es : length (enc_index es) = length es * 16.
Proof.
  rewrite enc_index_entries, (concat_length_uniform 16); [rewrite map_length; reflexivity|].
  rewrite Forall_map. apply Forall_forall. intros e _. apply enc_entry_length.
Qed.
Lemma decode_index es : Forall entry_ok es -> map dec_entry (chunks (N.to_nat ESZ) (enc_index es)) = es.
Proof.
  intros F. change (N.to_nat ESZ) with 16. rewrite enc_index_entries, chunks_concat; [|lia|].
  - rewrite map_map. rewrite <- (map_id es) at 2. apply map_ext_in. intros e He. apply dec_enc_entry.
    rewrite Forall_forall in F. apply F. exact He.
  - rewrite Forall_map. apply Forall_forall. intros e _. apply enc_entry_length.
Qed.

Lemma index_open_ok fs name es lls lfull :
  Forall entry_ok es ->
  fs_get fs (name ++ ext_index) = Some (outer [] ++ enc_index es) ->
  match lls with
  | None => es = []
  | Some v => exists e t, last_opt es = Some e /\ lfull = Some t /\ fst e = t /\ (snd e <= v)%N
  end ->
  index_open name lls lfull fs
  = (fs, Ok {| ix_file := {| of_name := name ++ ext_index; of_off := len (outer []) |};
               ix_entries := es; ix_last := option_map fst (last_opt es) |}).
Proof.
  intros F G H. unfold index_open.
  destruct (fwh_open_ok fs (name ++ ext_index) [] (enc_index es) ltac:(cbn; lia) G) as [FO FI].
  erewrite mbind_ok by exact FO.
  set (o := {| of_name := name ++ ext_index; of_off := len (outer []) |}) in *.
  assert (CR : check_and_repair o lls lfull fs = (fs, Ok tt)).
  { unfold check_and_repair. erewrite mbind_ok by (apply (of_len_ok _ _ _ _ FI)).
    destruct lls as [v|].
    - destruct H as (e & t & LO & -> & Et & Hv).
      assert (Z : (len (enc_index es) mod ESZ = 0)%N).
      { unfold len. rewrite enc_index_length. change ESZ with 16%N. rewrite Nat2N.inj_mul. apply N.mod_mul. lia. }
      rewrite Z, N.sub_0_r.
      erewrite mbind_ok by (apply (of_set_len_same _ _ _ _ FI)).
      erewrite mbind_ok by (apply (file_len_ok _ _ _ G)).
      assert (NE : es <> []) by (intros ->; discriminate).
      destruct (exists_last NE) as (es' & e' & Ees). assert (e' = e) as ->.
      { rewrite Ees, last_opt_snoc in LO. inversion LO. reflexivity. }
      assert (EE : enc_index es = enc_index es' ++ enc_entry e).
      { rewrite Ees. unfold enc_index. rewrite map_app, concat_app. cbn [map concat]. rewrite app_nil_r. reflexivity. }
      assert (LL : (len (outer [] ++ enc_index es) = len (outer [] ++ enc_index es') + 16)%N).
      { rewrite EE, app_assoc, len_app. f_equal. }
      change ESZ with 16%N.
      replace (len (outer [] ++ enc_index es) <? 16)%N with false by (symmetry; apply N.ltb_ge; lia).
      assert (RD : read_at (of_name o) (len (outer [] ++ enc_index es) - 16) 16 fs = (fs, Ok (enc_entry e))).
      { unfold read_at. cbn [of_name o]. rewrite G. replace (16 =? 0)%N with false by reflexivity.
        replace (len (outer [] ++ enc_index es) - 16 + 16 <=? len (outer [] ++ enc_index es))%N with true by (symmetry; apply N.leb_le; lia).
        f_equal. f_equal. unfold slice. rewrite drop_skipn, take_firstn.
        rewrite LL. replace (N.to_nat (len (outer [] ++ enc_index es') + 16 - 16)) with (length (outer [] ++ enc_index es')) by (unfold len; lia).
        rewrite EE, app_assoc.
        rewrite skipn_app, skipn_all, Nat.sub_diag. cbn [skipn app].
        replace (N.to_nat (len (outer [] ++ enc_index es') + 16 - 16 + 16 - (len (outer [] ++ enc_index es') + 16 - 16))) with (length (enc_entry e))
          by (rewrite enc_entry_length; lia).
        apply firstn_all. }
      erewrite mbind_ok by exact RD.
      assert (EO : entry_ok e).
      { rewrite Forall_forall in F. apply F. rewrite Ees. apply in_or_app. right. left. reflexivity. }
      rewrite (dec_enc_entry e EO). destruct e as [et eo]. cbn [fst snd] in *.
      erewrite mbind_ok by (apply (of_len_ok _ _ _ _ FI)).
      replace (v <? eo)%N with false by (symmetry; apply N.ltb_ge; exact Hv).
      erewrite mbind_ok by reflexivity. subst t. rewrite N.eqb_refl. reflexivity.
    - subst es. apply (of_set_len_same _ _ _ _ FI). }
  cbv iota beta. erewrite mbind_ok by exact CR.
  erewrite mbind_ok by (apply (of_read_from_0 _ _ _ _ FI)).
  rewrite (decode_index es F). reflexivity.
Qed.

(* ---- Data::open_existing ---- *)
Section DataOpen.
Variable p : nat.
Notation L := (p + 2).

Lemma legal_encode l : wf_series p l -> legal p (encode p l) (full_after p None l).
Proof.
  intros W. unfold legal. rewrite (scan_encode p l W). cbn [f_st f_good f_idx mk]. repeat split.
  - rewrite (encode_length p l (wf_payloads p l W)). apply Nat.mod_mul. lia.
  - destruct l; reflexivity.
Qed.

(* every section leaves room for its header and one line *)
Lemma secs_from_bounds : forall l full i, Forall (fun x => (fst x < 2^64)%N) l ->
  Forall (fun e => (fst e < 2^64)%N /\ (snd e + N.of_nat ((Layout.K p + 1) * L) <= N.of_nat ((i + slots_from p full l) * L))%N)
         (secs_from p full i l).
Proof.
  induction l as [|x t IH]; intros full i F; cbn [secs_from slots_from]; [constructor|].
  inversion F as [|? ? Hx Ft]; subst.
  assert (WEAK : forall full' j k, j + slots_from p full' t <= k ->
            Forall (fun e => (fst e < 2^64)%N /\ (snd e + N.of_nat ((Layout.K p + 1) * L) <= N.of_nat (k * L))%N) (secs_from p full' j t)).
  { intros full' j k Hk. eapply Forall_impl; [|apply (IH full' j Ft)]. intros e [H1 H2]. split; [exact H1|]. nia. }
  destruct full as [f|]; [destruct (fst x - f <=? MAXD)%N|].
  - apply WEAK. lia.
  - constructor; [cbn [fst snd]; split; [exact Hx|nia]|]. apply WEAK. lia.
  - constructor; [cbn [fst snd]; split; [exact Hx|nia]|]. apply WEAK. lia.
Qed.

Lemma mcatch_err_handled {A} (m:M A) h fs fs' e r : m fs = (fs', Err e) -> h e fs' = r -> mcatch m h fs = r.
Proof. intros H1 H2. unfold mcatch. rewrite H1. exact H2. Qed.

(* what check_and_repair compares: the last index entry against the last line and the last full timestamp *)
Lemma open_index_cond l : wf_series p l ->
  match (if (len (encode p l) <? line_size p)%N then None else Some (len (encode p l) - line_size p)%N) with
  | Some v => exists e t, last_opt (secs_from p None 0 l) = Some e /\ full_after p None l = Some t /\ fst e = t /\ (snd e <= v)%N
  | None => secs_from p None 0 l = []
  end.
Proof.
  intros W. pose proof (encode_length p l (wf_payloads p l W)) as EL. pose proof (slots_from_lines p l None) as SL.
  destruct l as [|x t].
  { replace (len (encode p []) <? line_size p)%N with true by (symmetry; apply N.ltb_lt; unfold line_size, len; cbn [encode encode_from length]; lia). reflexivity. }
  replace (len (encode p (x :: t)) <? line_size p)%N with false
    by (symmetry; apply N.ltb_ge; unfold len, line_size; rewrite EL, SL; cbn [length]; nia).
  pose proof (last_sec_full p (x :: t) None 0) as LS.
  destruct (full_after_cons_none p x t) as [f' FA]. rewrite FA in LS.
  destruct (last_opt (secs_from p None 0 (x :: t))) as [e|] eqn:LO; [|discriminate].
  exists e, f'. split; [reflexivity|]. split; [exact FA|]. split; [inversion LS; reflexivity|].
  assert (FB := secs_from_bounds (x :: t) None 0 ltac:(destruct W as [_ F]; eapply Forall_impl; [|exact F]; intros a [H _]; exact H)).
  assert (INe : In e (secs_from p None 0 (x :: t))).
  { destruct (exists_last (l:=secs_from p None 0 (x :: t))) as (es' & e' & Ees); [intros Q; rewrite Q in LO; discriminate|].
    rewrite Ees, last_opt_snoc in LO. inversion LO; subst e'. rewrite Ees. apply in_or_app. right. left. reflexivity. }
  rewrite Forall_forall in FB. destruct (FB e INe) as [_ Hb]. unfold len, line_size. rewrite EL. nia.
Qed.

Theorem data_open_ok fs name header cb l :
  wf_series p l -> (len header <= 65535)%N -> (len (encode p l) < 2^64)%N ->
  fs_get fs (name ++ ext_data) = Some (outer header ++ encode p l) ->
  fs_get fs (name ++ ext_index) = Some (outer [] ++ enc_index (sections p (encode p l))) ->
  (l = [] \/ tail_clean p (encode p l)) ->
  last_meta_timestamp p (encode p l) = Ok (full_after p None l) ->
  exists d, data_open name {| of_name := name ++ ext_data; of_off := len (outer header) |} p cb fs = (fs, Ok d)
    /\ RepD fs d p (outer header) (outer []) (encode p l) (full_after p None l) (option_map fst (last_opt l))
    /\ of_name (d_file d) = name ++ ext_data /\ of_name (ix_file (d_index d)) = name ++ ext_index.
Proof.
  intros W Hh H64 GD GI TC LM.
  destruct (fwh_open_ok fs (name ++ ext_data) header (encode p l) Hh GD) as [_ FI].
  set (o := {| of_name := name ++ ext_data; of_off := len (outer header) |}) in *.
  pose proof (encode_length p l (wf_payloads p l W)) as EL.
  pose proof (slots_from_lines p l None) as SL.
  assert (MS : metainfo_size p = N.of_nat (Layout.K p * L)).
  { unfold metainfo_size, line_size. rewrite K_eq. lia. }
  pose proof (sections_encode p l W) as SECS.
  unfold data_open.
  assert (FW : fwim_new o p fs = (fs, Ok tt)).
  { apply (fwim_new_clean p fs o (outer header) (encode p l) FI).
    - rewrite EL. apply Nat.mod_mul. lia.
    - destruct TC as [->|TC]; [left; reflexivity|]. destruct l as [|x t]; [left; reflexivity|right]. split; [|exact TC].
      rewrite MS. unfold len. rewrite EL, SL. cbn [secs_from length]. nia. }
  erewrite mbind_ok by exact FW.
  erewrite mbind_ok by (apply (of_len_ok _ _ _ _ FI)).
  erewrite mbind_ok by (apply (of_read_from_0 _ _ _ _ FI)).
  unfold lift at 1. erewrite mbind_ok by (rewrite LM; reflexivity).
  (* the index *)
  rewrite SECS in GI.
  assert (FB : Forall (fun e => (fst e < 2^64)%N /\ (snd e + N.of_nat ((Layout.K p + 1) * L) <= len (encode p l))%N) (secs_from p None 0 l)).
  { unfold len. rewrite EL.
    apply (secs_from_bounds l None 0). destruct W as [_ F]. eapply Forall_impl; [|exact F]. intros a [H _]. exact H. }
  assert (FE : Forall entry_ok (secs_from p None 0 l)).
  { eapply Forall_impl; [|exact FB]. intros e [H1 H2]. split; [exact H1|lia]. }
  set (ix := {| ix_file := {| of_name := name ++ ext_index; of_off := len (outer []) |};
                ix_entries := secs_from p None 0 l; ix_last := option_map fst (last_opt (secs_from p None 0 l)) |}).
  assert (IXL : ix_last ix = full_after p None l).
  { cbn [ix_last ix]. rewrite (last_sec_full p l None 0).
    destruct (last_opt (secs_from p None 0 l)) as [e|]; reflexivity. }
  assert (IO : index_open name (if (len (encode p l) <? line_size p)%N then None else Some (len (encode p l) - line_size p)%N)
                          (full_after p None l) fs = (fs, Ok ix)).
  { apply index_open_ok; [exact FE|exact GI|]. apply open_index_cond. exact W. }
  erewrite mbind_ok by (apply mcatch_ok; exact IO).
  (* the last line *)
  pose proof (last_line_of_ok p fs o cb ix (outer header) l FI W IXL) as LLO.
  assert (LT : mcatch (let* x := last_line_of ix (len (encode p l)) p o cb in ret (Some (fst x)))
                      (fun e => match e with ENoData => ret None | _ => fail e end) fs
               = (fs, Ok (option_map fst (last_opt l)))).
  { destruct (last_opt l) as [x|].
    - apply mcatch_ok. erewrite mbind_ok by exact LLO. reflexivity.
    - eapply mcatch_err_handled; [unfold mbind; rewrite LLO; reflexivity|reflexivity]. }
  erewrite mbind_ok by exact LT.
  eexists. split; [reflexivity|]. split; [|split; reflexivity].
  constructor; cbn [d_p d_file d_len d_index d_last].
  - reflexivity.
  - exact FI.
  - reflexivity.
  - cbn [ix ix_file]. rewrite SECS. split; [exact GI|reflexivity].
  - rewrite SECS. reflexivity.
  - exact IXL.
  - apply legal_encode. exact W.
  - reflexivity.
  - cbn [ix ix_file of_name o]. apply ext_data_index_neq.
Qed.
End DataOpen.

(* ---- ByteSeries::open_existing_with_resampler, no cache levels ---- *)
Section SeriesOpen.
Variable p : nat.
Notation L := (p + 2).

Lemma data_range_ok fs d hdr ihdr l : wf_series p l ->
  RepD fs d p hdr ihdr (encode p l) (full_after p None l) (option_map fst (last_opt l)) ->
  data_range d = Ok (first_last l).
Proof.
  intros W RD. unfold data_range.
  rewrite (rd_entries _ _ _ _ _ _ _ _ RD), (sections_encode p l W), (rd_last _ _ _ _ _ _ _ _ RD).
  destruct l as [|x t]; [reflexivity|]. cbn [secs_from first_last last_opt option_map fst]. rewrite Layout.last_cons. reflexivity.
Qed.

(* the open, given what the header parser answers for the header in the file and what the backwards
   search answers for the last full timestamp (both discharged below) *)
Theorem series_open_ok fs name header uhdr popt cb l :
  wf_series p l -> (len header <= 65535)%N -> (len (encode p l) < 2^64)%N ->
  fs_get fs (name ++ ext_data) = Some (outer header ++ encode p l) ->
  fs_get fs (name ++ ext_index) = Some (outer [] ++ enc_index (sections p (encode p l))) ->
  check_and_split header popt = Ok (N.of_nat p, uhdr) ->
  (l = [] \/ tail_clean p (encode p l)) ->
  last_meta_timestamp p (encode p l) = Ok (full_after p None l) ->
  exists s, series_open name popt [] cb fs = (fs, Ok (s, uhdr))
    /\ RepH fs s p (outer header) (outer []) l /\ s_cb s = cb
    /\ of_name (d_file (s_data s)) = name ++ ext_data /\ of_name (ix_file (d_index (s_data s))) = name ++ ext_index.
Proof.
  intros W Hh H64 GD GI CS TC LM.
  destruct (fwh_open_ok fs (name ++ ext_data) header (encode p l) Hh GD) as [FO FI].
  destruct (data_open_ok p fs name header cb l W Hh H64 GD GI TC LM) as (d & DO & RD & N1 & N2).
  unfold series_open. erewrite mbind_ok by exact FO. cbv iota beta.
  unfold lift at 1. erewrite mbind_ok by (rewrite CS; reflexivity). cbv iota beta.
  rewrite Nat2N.id.
  erewrite mbind_ok by (apply mcatch_ok; exact DO).
  unfold lift at 1. erewrite mbind_ok by (rewrite (data_range_ok fs d _ _ l W RD); reflexivity).
  erewrite mbind_ok by (apply mcatch_ok; reflexivity).
  eexists. split; [reflexivity|]. split; [|split; [reflexivity|]].
  - constructor; cbn [s_data s_down s_range]; [exact RD|exact W|reflexivity|reflexivity].
  - cbn [s_data]. split; assumption.
Qed.
End SeriesOpen.

(* ---- the tail check finds nothing on an intact file: unconditional for payloads of 4 bytes and more ---- *)
Section TailClean.
Variable p : nat.
Notation L := (p + 2).

Lemma encode_last_slot l : wf_series p l -> l <> [] ->
  exists A d pay, encode p l = A ++ enc_line d pay /\ length A mod L = 0 /\ (d <= MAXD)%N /\ length pay = p
                  /\ Layout.K p * L <= length A.
Proof.
  intros W NE. destruct (exists_last NE) as (l' & x & E). subst l.
  pose proof (encode_snoc p l' x) as EN.
  destruct W as [S F]. assert (Hp : length (snd x) = p).
  { rewrite Forall_forall in F. apply F. apply in_or_app. right. left. reflexivity. }
  assert (W' : wf_series p l').
  { split; [rewrite map_app in S; apply sorted_app_inv in S; apply S|apply Forall_app in F; apply F]. }
  pose proof (encode_length p l' (wf_payloads p l' W')) as EL'.
  pose proof (slots_from_lines p l' None) as SL'.
  unfold tail_bytes in EN. destruct (full_after p None l') as [f|] eqn:FA.
  - destruct (fst x - f <=? MAXD)%N eqn:C; cbn [fst] in EN.
    + exists (encode p l'), (fst x - f)%N, (snd x). apply N.leb_le in C. repeat split; try assumption.
      * rewrite EL'. apply Nat.mod_mul. lia.
      * rewrite EL', SL'. destruct l' as [|y t]; [discriminate|]. cbn [secs_from length]. nia.
    + exists (encode p l' ++ enc_section p (fst x)), 0%N, (snd x). rewrite <- app_assoc. repeat split; try assumption.
      * rewrite app_length, EL', enc_section_length. rewrite <- Nat.mul_add_distr_r. apply Nat.mod_mul. lia.
      * unfold MAXD. lia.
      * rewrite app_length, enc_section_length. lia.
  - exists (encode p l' ++ enc_section p (fst x)), 0%N, (snd x). cbn [fst] in EN. rewrite <- app_assoc. repeat split; try assumption.
    + rewrite app_length, EL', enc_section_length. rewrite <- Nat.mul_add_distr_r. apply Nat.mod_mul. lia.
    + unfold MAXD. lia.
    + rewrite app_length, enc_section_length. lia.
Qed.

Theorem tail_clean_p4 l : 4 <= p -> wf_series p l -> l <> [] -> tail_clean p (encode p l).
Proof.
  intros H4 W NE. destruct (encode_last_slot l W NE) as (A & d & pay & E & Am & Hd & Hp & AK).
  assert (K2 : Layout.K p = 2).
  { unfold Layout.K, Layout.ncont. destruct p as [|[|[|[|n]]]]; lia. }
  assert (MS : metainfo_size p = N.of_nat (2 * L)).
  { unfold metainfo_size, line_size. rewrite K_eq, K2. lia. }
  (* A ends with a whole slot X *)
  destruct (aligned_split L (length A / L) A) as (ls & EA & FA & NA).
  { pose proof (Nat.div_mod (length A) L ltac:(lia)). lia. }
  assert (LNE : ls <> []).
  { intros ->. cbn [concat] in EA. subst A. cbn [length] in AK. rewrite K2 in AK. lia. }
  destruct (exists_last LNE) as (ls' & X & Els). rewrite Els in EA, FA.
  apply Forall_app in FA. destruct FA as [Fls' FX]. apply Forall_inv in FX. pose proof FX as LX. cbn beta in LX.
  rewrite concat_app in EA. cbn [concat] in EA. rewrite app_nil_r in EA.
  assert (ED : length (enc_line d pay) = L) by (apply enc_line_length; exact Hp).
  unfold tail_clean, tail_pairs. rewrite MS, E, EA.
  assert (SLC : slice (len ((concat ls' ++ X) ++ enc_line d pay) - N.of_nat (2 * L)) (len ((concat ls' ++ X) ++ enc_line d pay))
                      ((concat ls' ++ X) ++ enc_line d pay) = X ++ enc_line d pay).
  { unfold slice. rewrite drop_skipn, take_firstn. rewrite <- !app_assoc.
    replace (N.to_nat (len (concat ls' ++ X ++ enc_line d pay) - N.of_nat (2 * L))) with (length (concat ls'))
      by (unfold len; rewrite !app_length, LX, ED; lia).
    rewrite skipn_app, skipn_all, Nat.sub_diag. cbn [skipn app].
    replace (N.to_nat (len (concat ls' ++ X ++ enc_line d pay) - (len (concat ls' ++ X ++ enc_line d pay) - N.of_nat (2 * L))))
      with (length (X ++ enc_line d pay)) by (unfold len; rewrite !app_length, LX, ED; lia).
    apply firstn_all. }
  rewrite SLC.
  set (fake := [pre0; pre1] ++ repeat x00 p).
  assert (LF : length fake = L) by (unfold fake; rewrite app_length, repeat_length; cbn [length]; lia).
  replace ((X ++ enc_line d pay) ++ fake) with (concat [X; enc_line d pay; fake]) by (cbn [concat]; rewrite app_nil_r, app_assoc; reflexivity).
  rewrite chunks_concat; [|lia|repeat constructor; assumption].
  cbn [pairs combine position fst snd].
  assert (ND : Meta.is_marker (enc_line d pay) = false).
  { rewrite is_marker_eq. change (enc_line d pay) with (Layout.line_slot d pay). apply Layout.line_slot_not_marker. exact Hd. }
  rewrite ND. rewrite andb_false_r. cbn [andb option_map]. reflexivity.
Qed.
End TailClean.

(* ---- C04: close, reopen ---- *)
Section Reopen.
Variable p : nat.

(* the conditions under which the open path is proved to be the identity:
   - the header parser recognises the header in the file (discharged for the library's own preamble in HeaderFacts),
   - the tail check sees no marker pair: always for payloads >= 4 (tail_clean_p4); for smaller payloads this
     excludes exactly the known finding D6 (0xFFFF words in the continuation slots of the last section),
   - the backwards search finds the last full timestamp (last_meta_short: files within the search window) *)
Theorem reopen_ok fs s header uhdr name popt hdropt cb l :
  RepH fs s p (outer header) (outer []) l ->
  of_name (d_file (s_data s)) = name ++ ext_data -> of_name (ix_file (d_index (s_data s))) = name ++ ext_index ->
  (len header <= 65535)%N -> (len (encode p l) < 2^64)%N ->
  check_and_split header popt = Ok (N.of_nat p, uhdr) ->
  (l = [] \/ tail_clean p (encode p l)) ->
  last_meta_timestamp p (encode p l) = Ok (full_after p None l) ->
  match hdropt with HdrIs e => e = uhdr | HdrAny => True end ->
  exists s', builder_open name popt hdropt [] cb fs = (fs, Ok (s', uhdr))
    /\ RepH fs s' p (outer header) (outer []) l /\ s_cb s' = cb
    /\ of_name (d_file (s_data s')) = name ++ ext_data /\ of_name (ix_file (d_index (s_data s'))) = name ++ ext_index.
Proof.
  intros R N1 N2 Hh H64 CS TC LM HO.
  destruct R as [RD W _ _].
  pose proof (rd_file _ _ _ _ _ _ _ _ RD) as [GD _]. pose proof (rd_ix _ _ _ _ _ _ _ _ RD) as [GI _].
  rewrite N1 in GD. rewrite N2 in GI.
  destruct (series_open_ok p fs name header uhdr popt cb l W Hh H64 GD GI CS TC LM) as (s' & SO & R' & C' & M1 & M2).
  exists s'. split; [|split; [exact R'|split; [exact C'|split; assumption]]].
  unfold builder_open. erewrite mbind_ok by exact SO. cbv iota beta.
  destruct hdropt as [|e]; [reflexivity|]. subst e. rewrite bytes_eqb_refl. reflexivity.
Qed.
End Reopen.

(* ---- the known finding D6 as a witness: without tail_clean the reopen is NOT the identity ---- *)
Definition d6_ops : list op :=
  [ONew ["d"]%byte 0 [] [] CbNone; OPush 65535 []; OClose; OOpen ["d"]%byte None HdrAny [] CbNone].
Lemma d6_refuted :
  wf_series 0 [(65535%N, [])] /\ ~ tail_clean 0 (encode 0 [(65535%N, [])])
  /\ snd (World.run World.init_world d6_ops) = [ROpened 0 []; RUnit; RUnit; ROPanic].
Proof.
  split; [|split].
  - split; [repeat constructor|]. repeat constructor; cbn; lia.
  - unfold tail_clean. vm_compute. discriminate.
  - vm_compute. reflexivity.
Qed.

(* ---- with the library's own preamble: no condition on the header is left ---- *)
Require Import BS.HeaderFacts.
Section ReopenOwn.
Variable p : nat.

Theorem reopen_own fs s uhdr name popt hdropt cb l :
  let header := params_to_text BSgen.Consts.version (N.of_nat p) ++ uhdr in
  RepH fs s p (outer header) (outer []) l ->
  of_name (d_file (s_data s)) = name ++ ext_data -> of_name (ix_file (d_index (s_data s))) = name ++ ext_index ->
  (len header <= 65535)%N -> (len (encode p l) < 2^64)%N -> (N.of_nat p < 2^64)%N ->
  (popt = None \/ popt = Some (N.of_nat p)) ->
  (l = [] \/ tail_clean p (encode p l)) ->
  last_meta_timestamp p (encode p l) = Ok (full_after p None l) ->
  match hdropt with HdrIs e => e = uhdr | HdrAny => True end ->
  exists s', builder_open name popt hdropt [] cb fs = (fs, Ok (s', uhdr))
    /\ RepH fs s' p (outer header) (outer []) l /\ s_cb s' = cb
    /\ of_name (d_file (s_data s')) = name ++ ext_data /\ of_name (ix_file (d_index (s_data s'))) = name ++ ext_index.
Proof.
  intros header R N1 N2 Hh H64 Hp Hopt TC LM HO.
  apply (reopen_ok p fs s header uhdr name popt hdropt cb l R N1 N2 Hh H64); try assumption.
  apply header_roundtrip; assumption.
Qed.

(* C17: another payload size is demanded: an error, and nothing is touched *)
Theorem open_other_payload fs name uhdr region q caches cb :
  let header := params_to_text BSgen.Consts.version (N.of_nat p) ++ uhdr in
  (len header <= 65535)%N -> (N.of_nat p < 2^64)%N -> q <> N.of_nat p ->
  fs_get fs (name ++ ext_data) = Some (outer header ++ region) ->
  series_open name (Some q) caches cb fs = (fs, Err EMismatch).
Proof.
  intros header Hh Hp Hq GD.
  destruct (fwh_open_ok fs (name ++ ext_data) header region Hh GD) as [FO _].
  unfold series_open. erewrite mbind_ok by exact FO. cbv iota beta.
  unfold lift at 1. unfold mbind. unfold header. rewrite (header_parse (N.of_nat p) uhdr (Some q) Hp).
  replace (N.of_nat p =? q)%N with false by (symmetry; apply N.eqb_neq; congruence). reflexivity.
Qed.

(* C17: another user header is demanded: an error, and no file is touched *)
Theorem open_other_header fs s uhdr name popt e cb l :
  let header := params_to_text BSgen.Consts.version (N.of_nat p) ++ uhdr in
  RepH fs s p (outer header) (outer []) l ->
  of_name (d_file (s_data s)) = name ++ ext_data -> of_name (ix_file (d_index (s_data s))) = name ++ ext_index ->
  (len header <= 65535)%N -> (len (encode p l) < 2^64)%N -> (N.of_nat p < 2^64)%N ->
  (popt = None \/ popt = Some (N.of_nat p)) ->
  (l = [] \/ tail_clean p (encode p l)) ->
  last_meta_timestamp p (encode p l) = Ok (full_after p None l) ->
  e <> uhdr ->
  builder_open name popt (HdrIs e) [] cb fs = (fs, Err EMismatch).
Proof.
  intros header R N1 N2 Hh H64 Hp Hopt TC LM He.
  destruct R as [RD W _ _].
  pose proof (rd_file _ _ _ _ _ _ _ _ RD) as [GD _]. pose proof (rd_ix _ _ _ _ _ _ _ _ RD) as [GI _].
  rewrite N1 in GD. rewrite N2 in GI.
  destruct (series_open_ok p fs name header uhdr popt cb l W Hh H64 GD GI (header_roundtrip _ uhdr popt Hp Hopt) TC LM)
    as (s' & SO & _).
  unfold builder_open. erewrite mbind_ok by exact SO. cbv iota beta.
  rewrite bytes_eqb_neq by congruence. reflexivity.
Qed.
End ReopenOwn.

(* ---- the backwards search discharged (LastMetaFacts), and everything unconditional for payloads >= 4 ---- *)
Lemma nm_p4 p s : 4 <= p -> nm_sec p s.
Proof.
  intros H4. unfold nm_sec, Layout.sec_got, Layout.chunk_pad.
  assert (N0 : Layout.ncont p = 0) by (unfold Layout.ncont; destruct p as [|[|[|[|q]]]]; try lia; reflexivity).
  rewrite N0. constructor.
Qed.

Theorem reopen_nm p fs s uhdr name popt hdropt cb l :
  let header := params_to_text BSgen.Consts.version (N.of_nat p) ++ uhdr in
  RepH fs s p (outer header) (outer []) l ->
  of_name (d_file (s_data s)) = name ++ ext_data -> of_name (ix_file (d_index (s_data s))) = name ++ ext_index ->
  (len header <= 65535)%N -> (len (encode p l) < 2^64)%N -> (N.of_nat p < 2^64)%N ->
  (popt = None \/ popt = Some (N.of_nat p)) ->
  (l = [] \/ tail_clean p (encode p l)) ->
  Forall (nm_sec p) (secs_of l) ->
  match hdropt with HdrIs e => e = uhdr | HdrAny => True end ->
  exists s', builder_open name popt hdropt [] cb fs = (fs, Ok (s', uhdr))
    /\ RepH fs s' p (outer header) (outer []) l /\ s_cb s' = cb
    /\ of_name (d_file (s_data s')) = name ++ ext_data /\ of_name (ix_file (d_index (s_data s'))) = name ++ ext_index.
Proof.
  intros header R N1 N2 Hh H64 Hp Hopt TC NM HO.
  apply (reopen_own p fs s uhdr name popt hdropt cb l R N1 N2 Hh H64 Hp Hopt TC); [|exact HO].
  apply last_meta_ok; [exact (rh_wf _ _ _ _ _ _ R)|exact NM].
Qed.

(* payload sizes of 4 bytes and more: close / reopen is the identity, no condition left *)
Theorem reopen_p4 p fs s uhdr name popt hdropt cb l : 4 <= p ->
  let header := params_to_text BSgen.Consts.version (N.of_nat p) ++ uhdr in
  RepH fs s p (outer header) (outer []) l ->
  of_name (d_file (s_data s)) = name ++ ext_data -> of_name (ix_file (d_index (s_data s))) = name ++ ext_index ->
  (len header <= 65535)%N -> (len (encode p l) < 2^64)%N -> (N.of_nat p < 2^64)%N ->
  (popt = None \/ popt = Some (N.of_nat p)) ->
  match hdropt with HdrIs e => e = uhdr | HdrAny => True end ->
  exists s', builder_open name popt hdropt [] cb fs = (fs, Ok (s', uhdr))
    /\ RepH fs s' p (outer header) (outer []) l /\ s_cb s' = cb
    /\ of_name (d_file (s_data s')) = name ++ ext_data /\ of_name (ix_file (d_index (s_data s'))) = name ++ ext_index.
Proof.
  intros H4 header R N1 N2 Hh H64 Hp Hopt HO.
  apply (reopen_nm p fs s uhdr name popt hdropt cb l R N1 N2 Hh H64 Hp Hopt); [| |exact HO].
  - destruct l as [|x t]; [left; reflexivity|right]. apply tail_clean_p4; [exact H4|exact (rh_wf _ _ _ _ _ _ R)|discriminate].
  - apply Forall_forall. intros sct _. apply nm_p4. exact H4.
Qed.

(* ---- C01 / C02 across a reopen (payload sizes >= 4: unconditional) ---- *)
Theorem reopen_then_read p fs s uhdr name popt hdropt cb l : 4 <= p ->
  let header := params_to_text BSgen.Consts.version (N.of_nat p) ++ uhdr in
  RepH fs s p (outer header) (outer []) l ->
  of_name (d_file (s_data s)) = name ++ ext_data -> of_name (ix_file (d_index (s_data s))) = name ++ ext_index ->
  (len header <= 65535)%N -> (len (encode p l) < 2^64)%N -> (N.of_nat p < 2^64)%N ->
  (popt = None \/ popt = Some (N.of_nat p)) ->
  match hdropt with HdrIs e => e = uhdr | HdrAny => True end ->
  exists s', builder_open name popt hdropt [] cb fs = (fs, Ok (s', uhdr))
    /\ forall lo hi, read_all s' lo hi fs = (fs, Ok (select lo hi l))
                     \/ (select lo hi l = [] /\ read_all s' lo hi fs = (fs, Err ERange)).
Proof.
  intros H4 header R N1 N2 Hh H64 Hp Hopt HO.
  destruct (reopen_p4 p fs s uhdr name popt hdropt cb l H4 R N1 N2 Hh H64 Hp Hopt HO) as (s' & E & R' & _).
  exists s'. split; [exact E|]. intros lo hi. apply (read_all_ok fs s' p _ _ l R' lo hi).
Qed.
