(* C04 / C05: last_meta_timestamp - the backwards search for the last full timestamp, window by window,
   with an overlap of one section header - finds the timestamp of the last section of the encoding of
   any well-formed series, whatever its length. For payload sizes 0..3 under the condition that no
   continuation slot of a section header looks like a marker line. *)
From Coq Require Import List NArith ZArith Lia Bool Arith ZifyBool ZifyN ZifyNat Sorted.
From Coq Require Import Strings.Byte.
Require Import BS.Bytes BS.Common BS.CommonFacts BS.Api BS.Layout BS.Format BS.FormatFacts BS.Spec BS.SpecStep BS.Sections.
Require Import BS.FS BS.FSFacts BS.Meta BS.MetaFacts BS.Header BS.Reader BS.Index BS.ExtractFacts.
Require BSgen.Consts.
Import ListNotations.
Close Scope N_scope. Open Scope nat_scope.
Arguments N.add : simpl never. Arguments N.mul : simpl never. Arguments N.sub : simpl never.
Arguments N.ltb : simpl never. Arguments N.leb : simpl never. Arguments N.eqb : simpl never.
Arguments N.div : simpl never. Arguments N.modulo : simpl never.

Lemma skipn_concat_uniform {A} (k:nat) : forall (ls:list (list A)) a, Forall (fun s => length s = k) ls ->
  skipn (a * k) (concat ls) = concat (skipn a ls).
Proof.
  induction ls as [|s t IH]; intros a F; [rewrite !skipn_nil; reflexivity|].
  inversion F as [|? ? Hs Ft]; subst. destruct a as [|a']; [reflexivity|].
  cbn [concat skipn Nat.mul]. rewrite skipn_app.
  replace (length s + a' * length s - length s) with (a' * length s) by lia.
  rewrite skipn_all2 by lia. rewrite app_nil_l. apply IH. exact Ft.
Qed.
Lemma firstn_concat_uniform {A} (k:nat) : forall (ls:list (list A)) a, Forall (fun s => length s = k) ls ->
  firstn (a * k) (concat ls) = concat (firstn a ls).
Proof.
  induction ls as [|s t IH]; intros a F; [rewrite !firstn_nil; reflexivity|].
  inversion F as [|? ? Hs Ft]; subst. destruct a as [|a']; [reflexivity|].
  cbn [concat firstn Nat.mul]. rewrite firstn_app.
  replace (length s + a' * length s - length s) with (a' * length s) by lia.
  rewrite firstn_all2 by lia. f_equal. apply IH. exact Ft.
Qed.

Section LastSec.
Variable p : nat.
Notation L := (p + 2).
Lemma last_opt_cons {A} (x:A) (t:list A) : last_opt (x :: t) = match last_opt t with Some y => Some y | None => Some x end.
Proof.
  destruct t as [|y t']; [reflexivity|]. cbn [last_opt]. rewrite Layout.last_cons. reflexivity.
Qed.

Lemma last_sec_full : forall l full i,
  full_after p full l = match last_opt (secs_from p full i l) with Some e => Some (fst e) | None => full end.
Proof.
  induction l as [|x t IH]; intros full i; cbn [full_after secs_from]; [reflexivity|].
  unfold tail_bytes. destruct full as [f|].
  - destruct (fst x - f <=? MAXD)%N; cbn [snd]; [apply IH|].
    rewrite last_opt_cons, (IH (Some (fst x)) (i + Layout.K p + 1)).
    destruct (last_opt (secs_from p (Some (fst x)) (i + Layout.K p + 1) t)); reflexivity.
  - cbn [snd]. rewrite last_opt_cons, (IH (Some (fst x)) (i + Layout.K p + 1)).
    destruct (last_opt (secs_from p (Some (fst x)) (i + Layout.K p + 1) t)); reflexivity.
Qed.

End LastSec.

Lemma sat_sub_mul a k w m : (N.of_nat (a * m) + N.of_nat (k * m) - N.of_nat (w * m))%N = N.of_nat ((a + k - w) * m).
Proof. rewrite <- Nat2N.inj_add, <- Nat.mul_add_distr_r, <- Nat2N.inj_sub, <- Nat.mul_sub_distr_r. reflexivity. Qed.
Lemma step_measure a k w m fuel : 0 < a -> k <= w -> 1000 <= (w - k) * m -> a * m + 1000 <= S fuel * 1000 ->
  (a + k - w) * m + 1000 <= fuel * 1000.
Proof.
  intros Ha Hk Hw Hf. destruct (Nat.le_gt_cases w (a + k)) as [Le|Gt].
  - assert (E : (a + k - w) * m + (w - k) * m = a * m) by (rewrite <- Nat.mul_add_distr_r; f_equal; lia). lia.
  - replace (a + k - w) with 0 by lia. assert (0 < a * m) by (destruct m; [lia|nia]). lia.
Qed.

Lemma fuel_enough a n m : (n - a) * m + 1000 <= S (S (N.to_nat (N.of_nat (n * m) / 1000))) * 1000.
Proof.
  assert (Q : n * m < (N.to_nat (N.of_nat (n * m) / 1000) + 1) * 1000).
  { pose proof (N.div_mod (N.of_nat (n * m)) 1000 ltac:(lia)). pose proof (N.mod_lt (N.of_nat (n * m)) 1000 ltac:(lia)). lia. }
  assert ((n - a) * m <= n * m) by (apply Nat.mul_le_mono_r; lia). lia.
Qed.

Section LML.
Variable p : nat.
Notation L := (p + 2).
Notation K := (Layout.K p).
Variable l : list line.
Hypothesis W : wf_series p l.
Let ss := secs_of l.
Let S := concat (map (sslots p) ss).
Let n := length S.
Hypothesis NM : Forall (nm_sec p) ss.

Let G : good_secs p ss := secs_good p l W.
Lemma enc_slots : encode p l = concat S /\ Forall (fun x => length x = L) S.
Proof. apply (encode_slots p l W). Qed.

Lemma len_region : length (encode p l) = n * L.
Proof. destruct enc_slots as [E F]. rewrite E. apply (concat_length_uniform L). exact F. Qed.

(* every section has room for its header and at least one line *)
Lemma ients_fit : forall (t:list sect) i, good_secs p t ->
  Forall (fun x => fst x + K + 1 <= i + length (concat (map (sslots p) t))) (ients p i t).
Proof.
  induction t as [|s t IH]; intros i Gt; cbn [ients map concat]; [constructor|].
  cbn [good_secs] in Gt. destruct Gt as (Ok0 & _ & Gt'). rewrite app_length, sslots_count.
  assert (1 <= length (snd s)).
  { destruct s as [f ls]. destruct Ok0 as ((pay & r & ->) & _). cbn [snd length]. lia. }
  constructor; [cbn [fst]; lia|].
  eapply Forall_impl; [|apply (IH (i + K + length (snd s)) Gt')]. intros x H0. cbn beta in *. lia.
Qed.

(* the timestamps found in the window [a, b) *)
Lemma window_extract a b : a <= b -> b <= n ->
  Forall (fun x => fst x + K <= b) (filter (fun x => a <=? fst x) (ients p 0 ss)) ->
  exists es, extract_entries_inner p (encode p l) (N.of_nat (a * L)) (N.of_nat (b * L)) = Ok es
             /\ map fst es = map snd (filter (fun x => a <=? fst x) (ients p 0 ss)).
Proof.
  intros Hab Hb HK. destruct enc_slots as [ES FS]. pose proof len_region as LR.
  unfold extract_entries_inner.
  replace (N.of_nat (b * L) <? N.of_nat (a * L))%N with false by (symmetry; apply N.ltb_ge; nia).
  set (chunkN := next_multiple_of BSgen.Consts.scan_chunk (line_size p)).
  destruct (next_multiple_of_spec' BSgen.Consts.scan_chunk (line_size p) ltac:(unfold line_size; lia)) as (CM & CGE & _).
  fold chunkN in CM, CGE.
  assert (CPOS : (0 < chunkN)%N) by (assert (0 < BSgen.Consts.scan_chunk)%N by reflexivity; lia).
  set (to_read := (N.of_nat (b * L) - N.of_nat (a * L))%N).
  assert (TR : to_read = N.of_nat ((b - a) * L)) by (unfold to_read; nia).
  pose proof (extract_loop_is_scan p
               (Datatypes.S (N.to_nat (N.min (to_read / chunkN) (len (encode p l) / chunkN + 1)))) (N.to_nat chunkN)
               (encode p l) (a * L) ((b - a) * L) 0 MN []) as CL.
  cbn [mheld_slots concat Nat.mul] in CL. rewrite N2Nat.id, <- TR in CL. change (N.of_nat 0) with 0%N in CL.
  rewrite CL; clear CL.
  - eexists. split; [reflexivity|]. cbn [app].
    (* the slots of the window *)
    assert (SW : chunks L (firstn ((b - a) * L) (skipn (a * L) (encode p l))) = firstn (b - a) (skipn a S)).
    { rewrite ES. rewrite (skipn_concat_uniform L S a FS).
      rewrite (firstn_concat_uniform L (skipn a S) (b - a)) by (apply Forall_skipn'; exact FS).
      apply chunks_concat; [lia|]. apply Forall_firstn. apply Forall_skipn'. exact FS. }
    rewrite SW.
    pose proof (meta_scan_shift p a (firstn (b - a) (skipn a S)) 0 MN) as SH. cbn [shift] in SH. rewrite Nat.add_0_r in SH.
    pose proof (window_found p ss a b G NM Hab Hb HK) as WF. fold S in WF. rewrite SH in WF. cbn [fst] in WF.
    rewrite <- WF. rewrite !map_map. apply map_ext. intros x. reflexivity.
  - lia.
  - unfold line_size in CM. replace L with (N.to_nat (N.of_nat L)) by lia. rewrite <- N2Nat.inj_mod by lia. rewrite CM. reflexivity.
  - apply Nat.mod_mul. lia.
  - rewrite LR. nia.
  - assert (Hd : (to_read / chunkN <= len (encode p l) / chunkN)%N).
    { apply N.div_le_mono; [lia|]. unfold len. rewrite LR, TR. nia. }
    rewrite N.min_l by lia.
    pose proof (N.div_mod to_read chunkN ltac:(lia)). pose proof (N.mod_lt to_read chunkN ltac:(lia)).
    assert (N.of_nat ((b - a) * L) <= N.of_nat (Datatypes.S (N.to_nat (to_read / chunkN)) * N.to_nat chunkN))%N; [|lia].
    rewrite <- TR. rewrite Nat2N.inj_mul, Nat2N.inj_succ, !N2Nat.id. nia.
  - exact I.
  - constructor.
Qed.

(* ---- the windows ---- *)
Definition mwin : N :=
  next_multiple_of (N.max BSgen.Consts.last_meta_window (BSgen.Consts.last_meta_overlap_factor * metainfo_size p)) (line_size p).
Let Wn : nat := N.to_nat (mwin / line_size p).

Lemma K_ms : metainfo_size p = N.of_nat (K * L).
Proof. unfold metainfo_size, line_size. rewrite K_eq. lia. Qed.
Lemma K_ge2 : 2 <= K. Proof. unfold Layout.K. lia. Qed.

Lemma mwin_facts : mwin = N.of_nat (Wn * L) /\ 2 * K <= Wn /\ 1000 <= (Wn - K) * L.
Proof.
  pose proof (next_multiple_of_spec' (N.max BSgen.Consts.last_meta_window (BSgen.Consts.last_meta_overlap_factor * metainfo_size p))
                (line_size p) ltac:(unfold line_size; lia)) as (M0 & GE & _). fold mwin in M0, GE.
  assert (LS : line_size p = N.of_nat L) by reflexivity.
  assert (E : mwin = N.of_nat (Wn * L)).
  { unfold Wn. pose proof (N.div_mod mwin (line_size p) ltac:(rewrite LS; lia)) as DM. rewrite M0 in DM.
    rewrite Nat2N.inj_mul, N2Nat.id, <- LS. lia. }
  rewrite K_ms in GE. change BSgen.Consts.last_meta_window with 10000%N in GE. change BSgen.Consts.last_meta_overlap_factor with 2%N in GE.
  split; [exact E|]. rewrite E in GE. split; [nia|].
  destruct (Nat.le_gt_cases (K * L) 5000) as [Sm|Bg]; nia.
Qed.

(* filter (a <= idx) on a list with increasing indices keeps a suffix *)
Lemma ients_increasing : forall (t:list sect) i, StronglySorted lt (map fst (ients p i t)).
Proof.
  induction t as [|s t IH]; intros i; cbn [ients map]; constructor; [apply IH|].
  rewrite Forall_map. eapply Forall_impl; [|apply (ients_lower p t (i + K + length (snd s)))].
  intros x H0. cbn beta in *. cbn [fst]. pose proof K_ge2. lia.
Qed.
Lemma filter_ge_last (a:nat) : forall (xs:list (nat * N)), StronglySorted lt (map fst xs) ->
  filter (fun x => a <=? fst x) xs <> [] -> last_opt (filter (fun x => a <=? fst x) xs) = last_opt xs.
Proof.
  induction xs as [|x t IH]; intros SS NE; [contradiction|]. cbn [map] in SS. inversion SS as [|? ? St Hall]; subst.
  cbn [filter] in *. destruct (a <=? fst x) eqn:C.
  - (* everything after x passes too *)
    apply Nat.leb_le in C. rewrite (filter_all (fun y => a <=? fst y) t); [reflexivity|].
    rewrite Forall_map in Hall. eapply Forall_impl; [|exact Hall]. intros y Hy. apply Nat.leb_le. cbn beta in Hy. lia.
  - rewrite (IH St NE). destruct t as [|y t']; [cbn [filter] in NE; contradiction|]. cbn [last_opt]. rewrite Layout.last_cons. reflexivity.
Qed.

Lemma last_ts_full : l <> [] ->
  option_map snd (last_opt (ients p 0 ss)) = full_after p None l /\ exists f0 t, ients p 0 ss = (0, f0) :: t.
Proof.
  intros NE. split.
  - rewrite (last_sec_full p l None 0). unfold ss.
    rewrite (secs_from_sections p l 0), <- (ients_ents p 0 (secs_of l)).
    destruct (ients p 0 (secs_of l)) as [|x t] eqn:E; [|].
    + destruct l as [|y t']; [contradiction|]. rewrite secs_of_cons in E. discriminate.
    + rewrite <- E. clear E. induction (ients p 0 (secs_of l)) as [|y u IH]; [reflexivity|].
      cbn [map]. destruct u as [|z u']; [reflexivity|]. cbn [last_opt map] in *. rewrite !Layout.last_cons. 
      cbn [last_opt] in IH. exact IH.
  - unfold ss. destruct l as [|y t']; [contradiction|]. rewrite secs_of_cons. cbn [ients]. eauto.
Qed.

(* one window: either it holds the last section, or no section starts at or after its first slot *)
Lemma window_step a b : a <= b -> b <= n -> l <> [] ->
  Forall (fun x => a <= fst x -> fst x + K <= b) (ients p 0 ss) ->
  exists es, extract_entries_inner p (encode p l) (N.of_nat (a * L)) (N.of_nat (b * L)) = Ok es
    /\ match last_opt es with
       | Some e => Some (fst e) = full_after p None l
       | None => Forall (fun x => fst x < a) (ients p 0 ss)
       end.
Proof.
  intros Hab Hb NE HK.
  assert (HK' : Forall (fun x => fst x + K <= b) (filter (fun x => a <=? fst x) (ients p 0 ss))).
  { apply Forall_forall. intros x Hx. apply filter_In in Hx. destruct Hx as [IN C]. apply Nat.leb_le in C.
    rewrite Forall_forall in HK. apply HK; assumption. }
  destruct (window_extract a b Hab Hb HK') as (es & EX & TS). exists es. split; [exact EX|].
  destruct (filter (fun x => a <=? fst x) (ients p 0 ss)) as [|y ys] eqn:FL.
  - destruct es; [|discriminate]. cbn [last_opt].
    apply Forall_forall. intros x Hx. destruct (Nat.lt_ge_cases (fst x) a) as [Lt|Ge]; [exact Lt|exfalso].
    assert (IN : In x (filter (fun x0 => a <=? fst x0) (ients p 0 ss))) by (apply filter_In; split; [exact Hx|apply Nat.leb_le; exact Ge]).
    rewrite FL in IN. exact IN.
  - pose proof (filter_ge_last a (ients p 0 ss) (ients_increasing ss 0)) as FG. rewrite FL in FG. specialize (FG ltac:(discriminate)).
    destruct (last_ts_full NE) as [LT _]. rewrite <- FG in LT.
    (* last of es has the timestamp of the last of the filtered list *)
    assert (LE : option_map fst (last_opt es) = option_map snd (last_opt (y :: ys))).
    { clear -TS. revert TS. generalize (y :: ys). intros zs. revert zs. induction es as [|e es IH]; intros zs TS; destruct zs as [|z zs]; try discriminate; [reflexivity|].
      cbn [map] in TS. inversion TS as [[E1 E2]]. rewrite !last_opt_cons. specialize (IH zs E2).
      destruct (last_opt es), (last_opt zs); cbn [option_map] in *; try discriminate; try (inversion IH; reflexivity). congruence. }
    destruct (last_opt es) as [e|]; cbn [option_map] in LE.
    + rewrite <- LT, <- LE. reflexivity.
    + destruct (last_opt (y :: ys)) eqn:Q; [discriminate|]. rewrite last_opt_cons in Q. destruct (last_opt ys); discriminate.
Qed.

Theorem last_meta_loop_ok : l <> [] -> forall fuel a,
  a + K <= n -> a * L + 1000 <= fuel * 1000 ->
  Forall (fun x => a <= fst x -> fst x + K <= Nat.min (a + Wn) n) (ients p 0 ss) ->
  last_meta_loop fuel p (encode p l) (N.of_nat (n * L)) mwin (metainfo_size p) (N.of_nat (a * L)) = Ok (full_after p None l).
Proof.
  intros NE. destruct mwin_facts as (MW & W2K & W1000). pose proof K_ge2 as K2.
  induction fuel as [|fuel IH]; intros a HaK Hfuel HK; [cbn in Hfuel; lia|].
  cbn [last_meta_loop].
  set (b := Nat.min (a + Wn) n) in *.
  assert (Eb : N.min (N.of_nat (a * L) + mwin) (N.of_nat (n * L)) = N.of_nat (b * L)).
  { rewrite MW. unfold b. rewrite <- Nat2N.inj_add, <- Nat.mul_add_distr_r, <- Nat2N.inj_min. f_equal.
    rewrite Nat.mul_min_distr_r. reflexivity. }
  rewrite Eb.
  assert (Hab : a < b) by (unfold b; lia).
  assert (ABL : a * L < b * L) by (apply Nat.mul_lt_mono_pos_r; lia).
  replace (N.of_nat (a * L) =? N.of_nat (b * L))%N with false by (symmetry; apply N.eqb_neq; lia).
  destruct (window_step a b ltac:(lia) ltac:(unfold b; lia) NE HK) as (es & EX & RES).
  rewrite EX. cbn [bind].
  destruct (last_opt es) as [e|]; [rewrite RES; reflexivity|].
  (* nothing in this window: no section starts at or after a, so a > 0 *)
  destruct (last_ts_full NE) as [_ (f0 & t & E0)].
  assert (Apos : 0 < a).
  { rewrite E0 in RES. inversion RES as [|? ? H0 _]; subst. cbn [fst] in H0. exact H0. }
  assert (ALpos : 0 < a * L) by (apply Nat.mul_pos_pos; lia).
  replace (N.of_nat (a * L) =? 0)%N with false by (symmetry; apply N.eqb_neq; lia).
  rewrite K_ms, MW, sat_sub_mul, <- MW, <- K_ms.
  apply IH.
  - lia.
  - apply step_measure; try assumption; lia.
  - apply Forall_forall. intros x Hx _. rewrite Forall_forall in RES. specialize (RES x Hx).
    pose proof (ients_fit ss 0 G) as FIT. rewrite Forall_forall in FIT. specialize (FIT x Hx). fold S in FIT. fold n in FIT.
    cbn [Nat.add] in FIT.
    destruct (Nat.le_gt_cases Wn (a + K)) as [Le|Gt].
    + replace (a + K - Wn + Wn) with (a + K) by lia. rewrite Nat.min_l by lia. lia.
    + replace (a + K - Wn) with 0 by lia. cbn [Nat.add]. apply Nat.min_glb; lia.
Qed.

(* last_meta_timestamp, any length *)
Theorem last_meta_ok : last_meta_timestamp p (encode p l) = Ok (full_after p None l).
Proof.
  assert (CASE : l = [] \/ l <> []) by (destruct l; [left; reflexivity|right; discriminate]).
  destruct CASE as [El|NE].
  { rewrite El. unfold last_meta_timestamp, last_meta_fuel. unfold len. cbn [encode encode_from length]. change (N.of_nat 0) with 0%N.
    cbn [last_meta_loop]. rewrite N.sub_0_l, N.add_0_l, N.min_0_r. reflexivity. }
  destruct mwin_facts as (MW & W2K & W1000). pose proof K_ge2 as K2. pose proof len_region as LR.
  unfold last_meta_timestamp. fold mwin. unfold len. rewrite LR.
  pose proof (ients_fit ss 0 G) as FIT. fold S in FIT. fold n in FIT. cbn [Nat.add] in FIT.
  destruct (last_ts_full NE) as [_ (f0 & t & E0)].
  assert (NK : K + 1 <= n).
  { rewrite E0 in FIT. inversion FIT as [|? ? H0 _]; subst. cbn [fst] in H0. lia. }
  rewrite MW.
  rewrite <- Nat2N.inj_sub, <- Nat.mul_sub_distr_r. rewrite <- MW.
  apply last_meta_loop_ok; [exact NE|lia| |].
  - unfold last_meta_fuel. apply fuel_enough.
  - apply Forall_forall. intros x Hx _. rewrite Forall_forall in FIT. specialize (FIT x Hx).
    apply Nat.min_glb; lia.
Qed.
End LML.
