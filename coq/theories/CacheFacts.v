(* C08 (and C16 with caches): every downsample cache holds exactly the bucket means of the lines appended so far,
   after every accepted append. A cache is an ordinary series (RepD) for the list of means of the complete
   buckets; the bucket in progress lives in the accumulator of DownSampledData. *)
From Coq Require Import List NArith ZArith Lia Bool Arith ZifyBool ZifyN ZifyNat Sorted.
From Coq Require Import Strings.Byte.
Require Import BS.Bytes BS.Common BS.CommonFacts BS.Api BS.Layout BS.Format BS.FormatFacts BS.Spec BS.SpecStep.
Require Import BS.FS BS.FSFacts BS.Meta BS.MetaFacts BS.Header BS.Reader BS.ReaderFacts BS.Index BS.Data BS.DataFacts BS.Seek BS.Series.
Require Import BS.SampleFacts BS.SeriesFacts BS.Sections.
Import ListNotations.
Close Scope N_scope. Open Scope nat_scope.
Arguments N.add : simpl never. Arguments N.mul : simpl never. Arguments N.sub : simpl never.
Arguments N.ltb : simpl never. Arguments N.leb : simpl never. Arguments N.eqb : simpl never.
Arguments N.div : simpl never.

(* ---- sums ---- *)
Lemma sum_N_le (m:N) : forall xs, Forall (fun x => (x <= m)%N) xs -> (sum_N xs <= N.of_nat (length xs) * m)%N.
Proof. induction 1 as [|x xs Hx _ IH]; cbn [sum_N fold_right length]; [lia|]. fold (sum_N xs). lia. Qed.
Lemma sum_N_ge (m:N) : forall xs, Forall (fun x => (m <= x)%N) xs -> (N.of_nat (length xs) * m <= sum_N xs)%N.
Proof. induction 1 as [|x xs Hx _ IH]; cbn [sum_N fold_right length]; [lia|]. fold (sum_N xs). lia. Qed.

Lemma col_sums_length p : forall g, Forall (fun pay : list byte => length pay = p) g -> length (col_sums p g) = p.
Proof.
  intros g. induction g as [|pay g IH] using rev_ind; intros F.
  - unfold col_sums. cbn [fold_left]. apply repeat_length.
  - apply Forall_app in F. destruct F as [Fg Fp]. inversion Fp as [|? ? Hp _]; subst.
    rewrite col_sums_snoc, map_length, combine_length, (IH Fg). lia.
Qed.

Section OneCache.
Variable p B : nat.
Hypothesis Hb : B > 0.

Record RepC (fs:fsys) (ds:dsample) (chdr cihdr:list byte) (cl pend:list line) : Prop := {
  rc_data : RepD fs (ds_data ds) p chdr cihdr (encode p cl) (full_after p None cl) (option_map fst (last_opt cl));
  rc_wf : wf_series p cl;
  rc_B : ds_B ds = N.of_nat B;
  rc_len : length pend < B;
  rc_n : ds_in_bin ds = N.of_nat (length pend);
  rc_sum : ds_sum ds = sum_N (map fst pend);
  rc_state : ds_state ds = col_sums p (map snd pend);
  rc_pay : Forall (fun y => length (snd y) = p) pend;
  rc_order : match last_opt cl with Some c => Forall (fun y => (fst c < fst y)%N) pend | None => True end
}.

(* DownSampled::process for one appended line (ts, pay): ts larger than everything seen so far *)
Theorem ds_process_ok fs ds chdr cihdr cl pend ts pay :
  RepC fs ds chdr cihdr cl pend ->
  length pay = p -> (ts < 2^64)%N -> Forall (fun y => (fst y < ts)%N) pend ->
  (match last_opt cl with Some c => (fst c < ts)%N | None => True end) ->
  if S (length pend) <? B
  then ds_process ds ts pay fs = (fs, Ok {| ds_data := ds_data ds; ds_B := ds_B ds; ds_in_bin := N.of_nat (S (length pend));
                                           ds_sum := (ds_sum ds + ts)%N; ds_state := rs_add (ds_state ds) (rs_decode pay) |})
       /\ forall ds', ds_process ds ts pay fs = (fs, Ok ds') -> RepC fs ds' chdr cihdr cl (pend ++ [(ts, pay)])
  else exists fs' ds', ds_process ds ts pay fs = (fs', Ok ds')
         /\ RepC fs' ds' chdr cihdr (cl ++ [bucket_mean p (pend ++ [(ts, pay)])]) []
         /\ (forall g, g <> of_name (d_file (ds_data ds)) -> g <> of_name (ix_file (d_index (ds_data ds))) -> fs_get fs' g = fs_get fs g)
         /\ of_name (d_file (ds_data ds')) = of_name (d_file (ds_data ds))
         /\ of_name (ix_file (d_index (ds_data ds'))) = of_name (ix_file (d_index (ds_data ds))).
Proof.
  intros [RD Wc HB Lp Hn Hs Hst Fpay Ford] Hpay Hts Fts Hlast.
  unfold ds_process. rewrite HB, Hn.
  destruct (S (length pend) <? B) eqn:C.
  - apply Nat.ltb_lt in C.
    replace (N.of_nat B <=? N.of_nat (length pend) + 1)%N with false by (symmetry; apply N.leb_gt; lia).
    split.
    + unfold ret. f_equal. f_equal. f_equal. lia.
    + intros ds' E. unfold ret in E. inversion E; subst ds'. constructor; cbn [ds_data ds_B ds_in_bin ds_sum ds_state].
      * exact RD. * exact Wc. * first [exact HB|reflexivity]. * rewrite app_length. cbn [length]. lia.
      * rewrite app_length. cbn [length]. lia.
      * rewrite Hs, map_app. cbn [map]. rewrite sum_N_snoc. reflexivity.
      * rewrite map_app. cbn [map]. rewrite col_sums_snoc, rs_add_is_col_step, Hst. reflexivity.
      * apply Forall_app. split; [exact Fpay|constructor; [exact Hpay|constructor]].
      * destruct (last_opt cl) as [c|]; [|exact I]. apply Forall_app. split; [exact Ford|constructor; [exact Hlast|constructor]].
  - apply Nat.ltb_ge in C. assert (LB : length (pend ++ [(ts, pay)]) = B) by (rewrite app_length; cbn [length]; lia).
    replace (N.of_nat B <=? N.of_nat (length pend) + 1)%N with true by (symmetry; apply N.leb_le; lia).
    replace (N.of_nat B =? 0)%N with false by (symmetry; apply N.eqb_neq; lia).
    set (g := pend ++ [(ts, pay)]) in *.
    assert (SUM : (ds_sum ds + ts)%N = sum_N (map fst g)).
    { unfold g. rewrite Hs, map_app. cbn [map]. rewrite sum_N_snoc. reflexivity. }
    assert (MEAN : bucket_mean p g = (((ds_sum ds + ts) / N.of_nat B)%N, rs_encode (rs_finish (rs_add (ds_state ds) (rs_decode pay)) (N.of_nat B)))).
    { unfold bucket_mean. rewrite LB, SUM. f_equal.
      unfold rs_encode, rs_finish, g. rewrite map_map, map_app. cbn [map].
      rewrite col_sums_snoc, rs_add_is_col_step, Hst. reflexivity. }
    (* the mean lies between the last cached time and ts *)
    assert (ALLle : Forall (fun x => (x <= ts)%N) (map fst g)).
    { unfold g. rewrite map_app. apply Forall_app. split; [|constructor; [cbn; lia|constructor]].
      rewrite Forall_map. eapply Forall_impl; [|exact Fts]. intros y Hy. cbn beta in Hy. lia. }
    assert (RTle : ((ds_sum ds + ts) / N.of_nat B <= ts)%N).
    { rewrite SUM. pose proof (sum_N_le ts _ ALLle) as Q. rewrite map_length, LB in Q.
      apply N.div_le_upper_bound; lia. }
    replace (ts <? (ds_sum ds + ts) / N.of_nat B)%N with false by (symmetry; apply N.ltb_ge; exact RTle).
    assert (RTgt : match last_opt cl with Some c => (fst c < (ds_sum ds + ts) / N.of_nat B)%N | None => True end).
    { destruct (last_opt cl) as [c|]; [|exact I].
      assert (ALLge : Forall (fun x => (fst c + 1 <= x)%N) (map fst g)).
      { unfold g. rewrite map_app. apply Forall_app. split; [|constructor; [cbn; lia|constructor]].
        rewrite Forall_map. eapply Forall_impl; [|exact Ford]. intros y Hy. cbn beta in Hy. lia. }
      rewrite SUM. pose proof (sum_N_ge (fst c + 1) _ ALLge) as Q. rewrite map_length, LB in Q.
      assert (fst c + 1 <= sum_N (map fst g) / N.of_nat B)%N; [|lia].
      apply N.div_le_lower_bound; lia. }
    assert (PL : length (rs_encode (rs_finish (rs_add (ds_state ds) (rs_decode pay)) (N.of_nat B))) = p).
    { unfold rs_encode, rs_finish. rewrite !map_length, rs_add_is_col_step, map_length, combine_length, Hst.
      rewrite col_sums_length; [lia|]. rewrite Forall_map. exact Fpay. }
    assert (LO : line_ok p (full_after p None cl) (((ds_sum ds + ts) / N.of_nat B)%N, rs_encode (rs_finish (rs_add (ds_state ds) (rs_decode pay)) (N.of_nat B)))).
    { split; [exact PL|]. split; [cbn [fst]; lia|]. cbn [fst].
      destruct cl as [|c0 ct] eqn:Ecl; [exact I|]. rewrite <- Ecl in *.
      destruct (full_after_cons_none p c0 ct) as [f' FA]. rewrite <- Ecl in FA. rewrite FA.
      destruct (last_opt cl) as [c|] eqn:LOc; [|rewrite Ecl in LOc; discriminate].
      pose proof (full_after_le_last p cl None f' (wf_ok_from p cl None Wc I) FA c LOc). lia. }
    destruct (push_data_ok fs (ds_data ds) p chdr cihdr _ _ _ _ _ RD LO) as (fs' & d' & E & RD' & Oth & N1 & N2).
    erewrite mbind_ok by exact E.
    do 2 eexists. split; [reflexivity|]. split; [|split; [exact Oth|split; assumption]].
    rewrite MEAN.
    constructor; cbn [ds_data ds_B ds_in_bin ds_sum ds_state length map].
    + cbn zeta in RD'. rewrite <- encode_snoc, <- full_after_snoc in RD'. rewrite last_opt_snoc. exact RD'.
    + apply wf_series_snoc; [exact Wc|cbn [fst]; lia|exact PL|]. cbn [fst]. exact RTgt.
    + first [exact HB|reflexivity]. + exact Hb. + reflexivity. + reflexivity.
    + unfold col_sums. cbn [fold_left]. rewrite (rd_p _ _ _ _ _ _ _ _ RD). reflexivity.
    + constructor.
    + rewrite last_opt_snoc. constructor.
Qed.
End OneCache.

(* ---- buckets of a list that grows at the end ---- *)
Lemma buckets_app B : B > 0 -> forall k (done t:list line), length done = k * B ->
  buckets B (done ++ t) = buckets B done ++ buckets B t.
Proof.
  intros Hb. induction k as [|k IH]; intros done t Hl.
  - destruct done; [|discriminate]. rewrite (buckets_short B []) by (cbn; lia). reflexivity.
  - assert (E : done = firstn B done ++ skipn B done) by (symmetry; apply firstn_skipn).
    assert (L1 : length (firstn B done) = B) by (rewrite firstn_length; nia).
    assert (L2 : length (skipn B done) = k * B) by (rewrite skipn_length; nia).
    rewrite E, <- app_assoc, (buckets_cons B _ _ Hb L1), (buckets_cons B _ _ Hb L1), (IH _ t L2). reflexivity.
Qed.
Lemma buckets_one B (g:list line) : B > 0 -> length g = B -> buckets B g = [g].
Proof.
  intros Hb Hg. rewrite <- (app_nil_r g) at 1. rewrite (buckets_cons B g [] Hb Hg), (buckets_short B []) by (cbn; lia). reflexivity.
Qed.

Lemma bucket_mean_le p (g:list line) m : g <> [] -> Forall (fun y => (fst y <= m)%N) g -> (fst (bucket_mean p g) <= m)%N.
Proof.
  intros NE F. unfold bucket_mean. cbn [fst].
  assert (Q := sum_N_le m (map fst g) ltac:(rewrite Forall_map; exact F)). rewrite map_length in Q.
  apply N.div_le_upper_bound; [destruct g; [contradiction|cbn [length]; lia]|lia].
Qed.

Lemma sorted_snoc_all (a:list line) x : StronglySorted N.lt (map fst (a ++ [x])) -> Forall (fun y => (fst y < fst x)%N) a.
Proof.
  induction a as [|y t IH]; intros S; [constructor|]. cbn [app map] in S. inversion S as [|? ? St Hall]; subst.
  constructor; [|apply IH; exact St]. rewrite Forall_forall in Hall. apply Hall. rewrite map_app. apply in_or_app. right. left. reflexivity.
Qed.

(* ---- a cache against the list of lines of its source ---- *)
Section CacheOf.
Variable p B : nat.
Hypothesis Hb : B > 0.

Definition CacheOf (fs:fsys) (ds:dsample) (chdr cihdr:list byte) (l:list line) : Prop :=
  exists k done pend, l = done ++ pend /\ length done = k * B
    /\ RepC p B fs ds chdr cihdr (cache_of p B done) pend
    /\ match last_opt (cache_of p B done), last_opt l with Some c, Some y => (fst c <= fst y)%N | _, _ => True end.

(* what C08 states: the cache file holds the means of all complete buckets *)
Lemma CacheOf_files fs ds chdr cihdr l : CacheOf fs ds chdr cihdr l ->
  file_is fs (d_file (ds_data ds)) chdr (encode p (cache_of p B l))
  /\ file_is fs (ix_file (d_index (ds_data ds))) cihdr (enc_index (sections p (encode p (cache_of p B l)))).
Proof.
  intros (k & done & pend & El & Ld & RC & _).
  assert (E : cache_of p B l = cache_of p B done).
  { unfold cache_of. rewrite El, (buckets_app B Hb k done pend Ld), (buckets_short B pend) by (apply (rc_len _ _ _ _ _ _ _ _ RC)).
    rewrite app_nil_r. reflexivity. }
  rewrite E. pose proof (rc_data _ _ _ _ _ _ _ _ RC) as RD.
  split; [exact (rd_file _ _ _ _ _ _ _ _ RD)|exact (rd_ix _ _ _ _ _ _ _ _ RD)].
Qed.

Theorem cache_step fs ds chdr cihdr l ts pay :
  CacheOf fs ds chdr cihdr l -> wf_series p (l ++ [(ts, pay)]) ->
  exists fs' ds', ds_process ds ts pay fs = (fs', Ok ds')
    /\ CacheOf fs' ds' chdr cihdr (l ++ [(ts, pay)])
    /\ (forall g, g <> of_name (d_file (ds_data ds)) -> g <> of_name (ix_file (d_index (ds_data ds))) -> fs_get fs' g = fs_get fs g)
    /\ of_name (d_file (ds_data ds')) = of_name (d_file (ds_data ds))
    /\ of_name (ix_file (d_index (ds_data ds'))) = of_name (ix_file (d_index (ds_data ds))).
Proof.
  intros (k & done & pend & El & Ld & RC & LE) W.
  destruct W as [SS F]. rewrite El in SS, F.
  assert (Hx : (ts < 2^64)%N /\ length pay = p).
  { rewrite Forall_forall in F. apply (F (ts, pay)). apply in_or_app. right. left. reflexivity. }
  destruct Hx as [Hts Hpay].
  assert (Fts : Forall (fun y => (fst y < ts)%N) (done ++ pend)) by (apply (sorted_snoc_all (done ++ pend) (ts, pay)); exact SS).
  pose proof Fts as Fall. apply Forall_app in Fts. destruct Fts as [_ Fp].
  assert (Hlast : match last_opt (cache_of p B done) with Some c => (fst c < ts)%N | None => True end).
  { destruct (last_opt (cache_of p B done)) as [c|] eqn:LC; [|exact I].
    destruct (last_opt l) as [y|] eqn:LO.
    - assert (IN : In y (done ++ pend)).
      { rewrite <- El. destruct (exists_last (l:=l)) as (l' & y' & E'); [intros Q; rewrite Q in LO; discriminate|].
        rewrite E'. rewrite E', last_opt_snoc in LO. inversion LO as [Q]. apply in_or_app. right. left. reflexivity. }
      rewrite Forall_forall in Fall. specialize (Fall y IN). cbn beta in Fall. lia.
    - (* l is empty: so is the cache *)
      exfalso. assert (LN : l = []) by (destruct l; [reflexivity|discriminate]). rewrite LN in El.
      symmetry in El. apply app_eq_nil in El. destruct El as [Ed _]. rewrite Ed in LC.
      unfold cache_of in LC. rewrite (buckets_short B []) in LC by (cbn; lia). discriminate. }
  pose proof (ds_process_ok p B Hb fs ds chdr cihdr _ pend ts pay RC Hpay Hts Fp Hlast) as STEP.
  destruct (S (length pend) <? B) eqn:C.
  - destruct STEP as [E RC']. exists fs. eexists. split; [exact E|]. split; [|split; [intros; reflexivity|split; reflexivity]].
    exists k, done, (pend ++ [(ts, pay)]). split; [rewrite El, <- app_assoc; reflexivity|]. split; [exact Ld|]. split; [apply RC'; exact E|].
    destruct (last_opt (cache_of p B done)) as [c|]; [|exact I]. rewrite last_opt_snoc. cbn [fst]. lia.
  - destruct STEP as (fs' & ds' & E & RC' & Oth & N1 & N2). exists fs', ds'. split; [exact E|]. split; [|split; [exact Oth|split; assumption]].
    apply Nat.ltb_ge in C. pose proof (rc_len _ _ _ _ _ _ _ _ RC) as Lp.
    assert (LB : length (pend ++ [(ts, pay)]) = B) by (rewrite app_length; cbn [length]; lia).
    exists (S k), (done ++ pend ++ [(ts, pay)]), []. split; [rewrite El, app_nil_r, <- app_assoc; reflexivity|].
    split; [rewrite app_length, Ld, LB; lia|].
    assert (CO : cache_of p B (done ++ pend ++ [(ts, pay)]) = cache_of p B done ++ [bucket_mean p (pend ++ [(ts, pay)])]).
    { unfold cache_of. rewrite (buckets_app B Hb k done _ Ld), (buckets_one B _ Hb LB), map_app. reflexivity. }
    rewrite CO. split; [exact RC'|]. rewrite !last_opt_snoc. cbn [fst].
    apply bucket_mean_le; [destruct pend; discriminate|].
    apply Forall_app. split; [eapply Forall_impl; [|exact Fp]; intros y Hy; cbn beta in Hy; lia|constructor; [cbn; lia|constructor]].
Qed.
End CacheOf.

Lemma NoDup_app_inv {A} (a b:list A) : NoDup (a ++ b) -> NoDup a /\ NoDup b /\ (forall x, In x a -> In x b -> False).
Proof.
  induction a as [|x a IH]; cbn [app]; intros H; [repeat split; [constructor|exact H|intros x []]|].
  inversion H as [|? ? NI ND]; subst. destruct (IH ND) as (Na & Nb & Dis). repeat split.
  - constructor; [intros Q; apply NI; apply in_or_app; left; exact Q|exact Na].
  - exact Nb.
  - intros y [->|Hy] Hb; [apply NI; apply in_or_app; right; exact Hb|apply (Dis y Hy Hb)].
Qed.
Lemma NoDup_app_intro {A} (a b:list A) : NoDup a -> NoDup b -> (forall x, In x a -> In x b -> False) -> NoDup (a ++ b).
Proof.
  induction a as [|x a IH]; cbn [app]; intros Na Nb Dis; [exact Nb|]. inversion Na as [|? ? NI Na']; subst.
  constructor; [|apply IH; [exact Na'|exact Nb|intros y Hy Hb; apply (Dis y); [right; exact Hy|exact Hb]]].
  intros Q. apply in_app_or in Q. destruct Q as [Q|Q]; [exact (NI Q)|apply (Dis x); [left; reflexivity|exact Q]].
Qed.
Lemma Forall2_impl_in {A B} (P Q:A -> B -> Prop) : forall la lb,
  (forall a b, In a la -> In b lb -> P a b -> Q a b) -> Forall2 P la lb -> Forall2 Q la lb.
Proof.
  intros la lb H F. induction F as [|a b la lb Pab F IH]; constructor.
  - apply H; [left; reflexivity|left; reflexivity|exact Pab].
  - apply IH. intros a0 b0 Ha Hb. apply H; right; assumption.
Qed.

(* ---- a series with cache levels ---- *)
Lemma RepD_frame fs fs' d p hdr ihdr region full last :
  RepD fs d p hdr ihdr region full last ->
  fs_get fs' (of_name (d_file d)) = fs_get fs (of_name (d_file d)) ->
  fs_get fs' (of_name (ix_file (d_index d))) = fs_get fs (of_name (ix_file (d_index d))) ->
  RepD fs' d p hdr ihdr region full last.
Proof.
  intros [Rp Rf Rl Rix Re Rlast Rlegal Rdl Rn] E1 E2. constructor; try assumption.
  - eapply file_is_other; eassumption.
  - eapply file_is_other; eassumption.
Qed.

Definition cache_files (ds:dsample) : list fname :=
  [of_name (d_file (ds_data ds)); of_name (ix_file (d_index (ds_data ds)))].

Lemma CacheOf_frame p B fs fs' ds chdr cihdr l : CacheOf p B fs ds chdr cihdr l ->
  (forall g, In g (cache_files ds) -> fs_get fs' g = fs_get fs g) -> CacheOf p B fs' ds chdr cihdr l.
Proof.
  intros (k & done & pend & El & Ld & RC & LE) Fr. exists k, done, pend. split; [exact El|split; [exact Ld|split; [|exact LE]]].
  destruct RC as [RD Wc HB Lp Hn Hs Hst Fpay Ford]. constructor; try assumption.
  apply (RepD_frame fs fs'); [exact RD| |]; apply Fr; cbn [cache_files In]; auto.
Qed.

Definition cspec := (nat * (list byte * list byte))%type.      (* bucket size, header of the cache's data file, of its index *)
Definition cache_ok (p:nat) (fs:fsys) (l:list line) (ds:dsample) (c:cspec) : Prop :=
  fst c > 0 /\ CacheOf p (fst c) fs ds (fst (snd c)) (snd (snd c)) l.

Section Levels.
Variable p : nat.

Theorem process_all_ok : forall (down:list dsample) (cs:list cspec) fs l ts pay,
  Forall2 (cache_ok p fs l) down cs -> NoDup (flat_map cache_files down) -> wf_series p (l ++ [(ts, pay)]) ->
  exists fs' down', process_all down ts pay fs = (fs', Ok down')
    /\ Forall2 (cache_ok p fs' (l ++ [(ts, pay)])) down' cs
    /\ (forall g, ~ In g (flat_map cache_files down) -> fs_get fs' g = fs_get fs g)
    /\ map cache_files down' = map cache_files down.
Proof.
  induction down as [|ds t IH]; intros cs fs l ts pay F2 ND W.
  - inversion F2; subst. exists fs, []. split; [reflexivity|split; [constructor|split; [intros; reflexivity|reflexivity]]].
  - inversion F2 as [|? c ? cs' [Hb CO] F2t]; subst.
    cbn [flat_map] in ND. apply NoDup_app_inv in ND. destruct ND as (ND1 & NDt & DIS).
    destruct (cache_step p (fst c) Hb fs ds _ _ l ts pay CO W) as (fs1 & ds' & E & CO' & Oth & N1 & N2).
    assert (F2t1 : Forall2 (cache_ok p fs1 l) t cs').
    { eapply Forall2_impl_in; [|exact F2t]. intros d0 c0 Hd0 _ [Hb0 CO0]. split; [exact Hb0|].
      apply (CacheOf_frame p (fst c0) fs fs1); [exact CO0|]. intros g Hg. apply Oth.
      - intros Q. apply (DIS g); [cbn [cache_files In]; auto|]. apply in_flat_map. exists d0. split; assumption.
      - intros Q. apply (DIS g); [cbn [cache_files In]; auto|]. apply in_flat_map. exists d0. split; assumption. }
    destruct (IH cs' fs1 l ts pay F2t1 NDt W) as (fs2 & t' & Et & F2t' & Otht & Nt).
    cbn [process_all]. erewrite mbind_ok by (apply mcatch_ok; exact E). erewrite mbind_ok by exact Et.
    exists fs2, (ds' :: t'). split; [reflexivity|]. split; [|split].
    + constructor; [|exact F2t']. split; [exact Hb|].
      apply (CacheOf_frame p (fst c) fs1 fs2); [exact CO'|]. intros g Hg. apply Otht. intros Q.
      apply (DIS g); [|exact Q]. unfold cache_files in *. rewrite <- N1, <- N2. exact Hg.
    + intros g NI. rewrite Otht by (intros Q; apply NI; cbn [flat_map]; apply in_or_app; right; exact Q).
      apply Oth; intros Q; apply NI; cbn [flat_map cache_files app In]; auto.
    + cbn [map]. f_equal; [|exact Nt]. unfold cache_files. rewrite N1, N2. reflexivity.
Qed.
End Levels.

(* ---- ByteSeries::push_line with cache levels ---- *)
Lemma accepted_line p l ts pay : wf_series p l -> accepts p l ts pay = true ->
  line_ok p (full_after p None l) (ts, pay) /\ wf_series p (l ++ [(ts, pay)])
  /\ length pay = p /\ (ts < 2^64)%N /\ match last_opt l with Some y => (fst y < ts)%N | None => True end.
Proof.
  intros W A. unfold accepts in A. apply andb_true_iff in A. destruct A as [A A3]. apply andb_true_iff in A. destruct A as [A1 A2].
  apply Nat.eqb_eq in A1. apply N.ltb_lt in A2.
  assert (Hts : (ts < 2^64)%N) by (unfold U64 in A2; exact A2).
  assert (HL : match last_opt l with Some y => (fst y < ts)%N | None => True end).
  { destruct (last_opt l); [apply N.ltb_lt; exact A3|exact I]. }
  split; [|split; [apply wf_series_snoc; assumption|repeat split; assumption]].
  split; [exact A1|]. split; [exact Hts|]. cbn [fst].
  destruct l as [|x0 t] eqn:El; [exact I|]. rewrite <- El in *.
  destruct (full_after_cons_none p x0 t) as [f' FA]. rewrite <- El in FA. rewrite FA.
  destruct (last_opt l) as [y|] eqn:LO; [|rewrite El in LO; discriminate].
  pose proof (full_after_le_last p l None f' (wf_ok_from p l None W I) FA y LO). lia.
Qed.

Definition all_files (s:series) : list fname :=
  [of_name (d_file (s_data s)); of_name (ix_file (d_index (s_data s)))] ++ flat_map cache_files (s_down s).

Record RepS (fs:fsys) (s:series) (p:nat) (hdr ihdr:list byte) (l:list line) (cs:list cspec) : Prop := {
  rs_data : RepD fs (s_data s) p hdr ihdr (encode p l) (full_after p None l) (option_map fst (last_opt l));
  rs_wf : wf_series p l;
  rs_range : s_range s = first_last l;
  rs_caches : Forall2 (cache_ok p fs l) (s_down s) cs;
  rs_names : NoDup (all_files s)
}.

(* without cache levels RepS is RepH *)
Lemma RepS_RepH fs s p hdr ihdr l : RepS fs s p hdr ihdr l [] -> RepH fs s p hdr ihdr l.
Proof.
  intros [RD W RR RC _]. constructor; try assumption. inversion RC. reflexivity.
Qed.

(* C08: the files of every cache level *)
Theorem RepS_cache_files fs s p hdr ihdr l cs : RepS fs s p hdr ihdr l cs ->
  Forall2 (fun ds c =>
    file_is fs (d_file (ds_data ds)) (fst (snd c)) (encode p (cache_of p (fst c) l))
    /\ file_is fs (ix_file (d_index (ds_data ds))) (snd (snd c)) (enc_index (sections p (encode p (cache_of p (fst c) l)))))
    (s_down s) cs.
Proof.
  intros R. eapply Forall2_impl_in; [|exact (rs_caches _ _ _ _ _ _ _ R)].
  intros ds c _ _ [Hb CO]. apply (CacheOf_files p (fst c) Hb fs ds _ _ l CO).
Qed.

Theorem push_line_caches fs s p hdr ihdr l cs ts pay :
  RepS fs s p hdr ihdr l cs -> accepts p l ts pay = true ->
  exists fs' s', push_line s ts pay fs = (fs', Ok s')
    /\ RepS fs' s' p hdr ihdr (l ++ [(ts, pay)]) cs
    /\ (forall g, ~ In g (all_files s) -> fs_get fs' g = fs_get fs g)
    /\ all_files s' = all_files s /\ s_cb s' = s_cb s
    /\ of_name (d_file (s_data s')) = of_name (d_file (s_data s))
    /\ of_name (ix_file (d_index (s_data s'))) = of_name (ix_file (d_index (s_data s)))
    /\ map cache_files (s_down s') = map cache_files (s_down s).
Proof.
  intros [RD W RR RC ND] A.
  destruct (accepted_line p l ts pay W A) as (LO & W' & Hpay & Hts & HL).
  unfold push_line. rewrite (rd_p _ _ _ _ _ _ _ _ RD).
  replace (len pay =? N.of_nat p)%N with true by (symmetry; apply N.eqb_eq; unfold len; lia). cbn [negb].
  rewrite RR, first_last_last_opt.
  set (rng := match l with [] => None | x :: _ => option_map (fun y => (fst x, fst y)) (last_opt l) end).
  assert (RNG : (match rng with Some (a, b) => if (ts <=? b)%N then None else Some (a, ts) | None => Some (ts, ts) end)
                = first_last (l ++ [(ts, pay)])).
  { unfold rng. destruct l as [|x0 t] eqn:El; [reflexivity|]. rewrite <- El in *.
    destruct (last_opt l) as [y|] eqn:LOy; [|rewrite El in LOy; discriminate]. cbn [option_map].
    replace (ts <=? fst y)%N with false by (symmetry; apply N.leb_gt; exact HL).
    rewrite first_last_last_opt, last_opt_snoc. rewrite El. reflexivity. }
  rewrite RNG.
  destruct (first_last (l ++ [(ts, pay)])) as [rg|] eqn:FL.
  2:{ exfalso. destruct l; discriminate. }
  destruct (push_data_ok fs (s_data s) p hdr ihdr _ _ _ ts pay RD LO) as (fs1 & d' & E & RD' & Oth & N1 & N2).
  erewrite mbind_ok by (apply mcatch_ok; exact E).
  unfold all_files in ND. apply NoDup_app_inv in ND. destruct ND as (NDs & NDc & DIS).
  assert (RC1 : Forall2 (cache_ok p fs1 l) (s_down s) cs).
  { eapply Forall2_impl_in; [|exact RC]. intros d0 c0 Hd0 _ [Hb0 CO0]. split; [exact Hb0|].
    apply (CacheOf_frame p (fst c0) fs fs1); [exact CO0|]. intros g Hg. apply Oth.
    - intros Q. apply (DIS g); [subst g; left; reflexivity|]. apply in_flat_map. exists d0. split; assumption.
    - intros Q. apply (DIS g); [subst g; right; left; reflexivity|]. apply in_flat_map. exists d0. split; assumption. }
  destruct (process_all_ok p (s_down s) cs fs1 l ts pay RC1 NDc W') as (fs2 & down' & EP & RC2 & OthC & NC).
  erewrite mbind_ok by exact EP.
  assert (FM : flat_map cache_files down' = flat_map cache_files (s_down s)).
  { rewrite !flat_map_concat_map, NC. reflexivity. }
  do 2 eexists. split; [reflexivity|]. split; [|split; [|split; [|split; [reflexivity|split; [exact N1|split; [exact N2|exact NC]]]]]].
  - constructor; cbn [s_data s_down s_range].
    + cbn zeta in RD'. rewrite <- encode_snoc, <- full_after_snoc in RD'. rewrite last_opt_snoc.
      apply (RepD_frame fs1 fs2); [exact RD'| |]; apply OthC; intros Q.
      * apply (DIS (of_name (d_file d'))); [rewrite N1; left; reflexivity|exact Q].
      * apply (DIS (of_name (ix_file (d_index d')))); [rewrite N2; right; left; reflexivity|exact Q].
    + exact W'.
    + symmetry; exact FL.
    + exact RC2.
    + unfold all_files. cbn [s_data s_down]. rewrite N1, N2, FM. 
      apply NoDup_app_intro; assumption.
  - intros g NI. unfold all_files in NI. rewrite OthC by (intros Q; apply NI; apply in_or_app; right; exact Q).
    apply Oth; intros Q; apply NI; subst g; cbn [app In]; auto.
  - unfold all_files. cbn [s_data s_down]. rewrite N1, N2, FM. reflexivity.
Qed.

(* ---- creating a series with cache levels ---- *)
Lemma fs_mem_get fs f : fs_mem fs f = match fs_get fs f with Some _ => true | None => false end.
Proof. unfold fs_mem, fs_get. destruct (fs_raw fs f); reflexivity. Qed.

Definition cache_names (name:fname) (B:N) : list fname := [cache_name name B ++ ext_data; cache_name name B ++ ext_index].
Definition new_spec (name:fname) (B:N) : cspec :=
  (N.to_nat B, (le_enc 2 (len (config_header name B)) ++ BSgen.Consts.line_ends ++ config_header name B,
                le_enc 2 0 ++ BSgen.Consts.line_ends)).

Section Create.
Variable p : nat.

Lemma ds_create_empty fs name B source cb :
  ix_entries (d_index source) = [] -> (1 <= B)%N ->
  fs_mem fs (cache_name name B ++ ext_data) = false -> fs_mem fs (cache_name name B ++ ext_index) = false ->
  (len (config_header name B) <= 65535)%N ->
  exists fs' ds, ds_create name B p source cb fs = (fs', Ok ds)
    /\ cache_ok p fs' [] ds (new_spec name B)
    /\ cache_files ds = cache_names name B
    /\ (forall g, ~ In g (cache_names name B) -> fs_get fs' g = fs_get fs g).
Proof.
  intros EE HB M1 M2 Hl. unfold ds_create, ds_new.
  destruct (data_new_ok fs (cache_name name B) p (config_header name B) M1 M2 Hl) as (fs' & d & E & RD & N1 & N2 & Oth).
  erewrite mbind_ok by (erewrite mbind_ok by exact E; reflexivity). rewrite EE.
  exists fs'. eexists. split; [reflexivity|]. split; [|split].
  - split; [cbn [new_spec fst]; lia|]. cbn [new_spec fst snd].
    assert (CE : cache_of p (N.to_nat B) [] = []) by (unfold cache_of; rewrite buckets_short by (cbn; lia); reflexivity).
    exists 0, [], []. split; [reflexivity|]. split; [reflexivity|]. rewrite CE. split; [|exact I]. constructor; cbn [ds_data ds_B ds_in_bin ds_sum ds_state length map].
    + exact RD.
    + split; constructor.
    + rewrite N2Nat.id. reflexivity.
    + lia.
    + reflexivity.
    + reflexivity.
    + reflexivity.
    + constructor.
    + exact I.
  - unfold cache_files, cache_names. cbn [ds_data]. rewrite N1, N2. reflexivity.
  - intros g NI. apply Oth; intros Q; apply NI; subst g; cbn [cache_names In]; auto.
Qed.

Theorem create_caches_ok name source cb : ix_entries (d_index source) = [] -> forall (Bs:list N) fs,
  Forall (fun B => (1 <= B)%N /\ (len (config_header name B) <= 65535)%N
                   /\ fs_mem fs (cache_name name B ++ ext_data) = false /\ fs_mem fs (cache_name name B ++ ext_index) = false) Bs ->
  NoDup (flat_map (cache_names name) Bs) ->
  exists fs' down, create_caches name p source cb Bs fs = (fs', Ok down)
    /\ Forall2 (cache_ok p fs' []) down (map (new_spec name) Bs)
    /\ flat_map cache_files down = flat_map (cache_names name) Bs
    /\ (forall g, ~ In g (flat_map (cache_names name) Bs) -> fs_get fs' g = fs_get fs g).
Proof.
  intros EE. induction Bs as [|B t IH]; intros fs F ND.
  - exists fs, []. split; [reflexivity|]. split; [constructor|]. split; [reflexivity|intros; reflexivity].
  - inversion F as [|? ? (HB & Hl & M1 & M2) Ft]; subst.
    cbn [flat_map] in ND. apply NoDup_app_inv in ND. destruct ND as (ND1 & NDt & DIS).
    destruct (ds_create_empty fs name B source cb EE HB M1 M2 Hl) as (fs1 & ds & E & CO & NF & Oth).
    assert (Ft1 : Forall (fun B0 => (1 <= B0)%N /\ (len (config_header name B0) <= 65535)%N
                   /\ fs_mem fs1 (cache_name name B0 ++ ext_data) = false /\ fs_mem fs1 (cache_name name B0 ++ ext_index) = false) t).
    { apply Forall_forall. intros B0 HB0. rewrite Forall_forall in Ft. destruct (Ft B0 HB0) as (A1 & A2 & A3 & A4).
      split; [exact A1|]. split; [exact A2|].
      assert (NIn : forall g, In g (cache_names name B0) -> ~ In g (cache_names name B)).
      { intros g Hg Q. apply (DIS g Q). apply in_flat_map. exists B0. split; assumption. }
      split; rewrite fs_mem_get, Oth; try (rewrite <- fs_mem_get; assumption); apply NIn; cbn [cache_names In]; auto. }
    destruct (IH fs1 Ft1 NDt) as (fs2 & down & Et & F2 & FM & Otht).
    cbn [create_caches]. erewrite mbind_ok by exact E. erewrite mbind_ok by (apply mcatch_ok; exact Et).
    exists fs2, (ds :: down). split; [reflexivity|]. split; [|split].
    + cbn [map]. constructor; [|exact F2]. destruct CO as [Hb CO]. split; [exact Hb|].
      apply (CacheOf_frame p _ fs1 fs2); [exact CO|]. intros g Hg. apply Otht. intros Q. rewrite NF in Hg. apply (DIS g Hg Q).
    + cbn [flat_map]. rewrite NF, FM. reflexivity.
    + intros g NI. rewrite Otht by (intros Q; apply NI; cbn [flat_map]; apply in_or_app; right; exact Q).
      apply Oth. intros Q. apply NI. cbn [flat_map]. apply in_or_app. left. exact Q.
Qed.

(* ByteSeries::new_with_resamplers on free names *)
Theorem series_new_caches fs name hdr (Bs:list N) cb :
  let header := params_to_text BSgen.Consts.version (N.of_nat p) ++ hdr in
  fs_mem fs (name ++ ext_data) = false -> fs_mem fs (name ++ ext_index) = false -> (len header <= 65535)%N ->
  Forall (fun B => (1 <= B)%N /\ (len (config_header name B) <= 65535)%N
                   /\ fs_mem fs (cache_name name B ++ ext_data) = false /\ fs_mem fs (cache_name name B ++ ext_index) = false) Bs ->
  NoDup ([name ++ ext_data; name ++ ext_index] ++ flat_map (cache_names name) Bs) ->
  exists fs' s, series_new name (N.of_nat p) hdr Bs cb fs = (fs', Ok s)
    /\ RepS fs' s p (le_enc 2 (len header) ++ BSgen.Consts.line_ends ++ header) (le_enc 2 0 ++ BSgen.Consts.line_ends) []
            (map (new_spec name) Bs)
    /\ s_cb s = cb
    /\ all_files s = [name ++ ext_data; name ++ ext_index] ++ flat_map (cache_names name) Bs.
Proof.
  intros header M1 M2 Hl F ND. unfold series_new. fold header. rewrite Nat2N.id.
  destruct (data_new_ok fs name p header M1 M2 Hl) as (fs1 & d & E & RD & N1 & N2 & Oth).
  erewrite mbind_ok by exact E.
  apply NoDup_app_inv in ND. destruct ND as (NDs & NDc & DIS).
  assert (F1 : Forall (fun B => (1 <= B)%N /\ (len (config_header name B) <= 65535)%N
                   /\ fs_mem fs1 (cache_name name B ++ ext_data) = false /\ fs_mem fs1 (cache_name name B ++ ext_index) = false) Bs).
  { apply Forall_forall. intros B0 HB0. rewrite Forall_forall in F. destruct (F B0 HB0) as (A1 & A2 & A3 & A4).
    split; [exact A1|]. split; [exact A2|].
    assert (NIn : forall g, In g (cache_names name B0) -> g <> name ++ ext_data /\ g <> name ++ ext_index).
    { intros g Hg. split; intros Q; apply (DIS g); try (subst g; cbn [In]; auto); apply in_flat_map; exists B0; split; assumption. }
    split; rewrite fs_mem_get, Oth; try (rewrite <- fs_mem_get; assumption); apply NIn; cbn [cache_names In]; auto. }
  assert (EE : ix_entries (d_index d) = []).
  { rewrite (rd_entries _ _ _ _ _ _ _ _ RD). apply sections_nil. }
  destruct (create_caches_ok name d cb EE Bs fs1 F1 NDc) as (fs2 & down & EC & F2 & FM & OthC).
  erewrite mbind_ok by (apply mcatch_ok; exact EC).
  do 2 eexists. split; [reflexivity|]. split; [|split; [reflexivity|]].
  - constructor; cbn [s_data s_down s_range].
    + apply (RepD_frame fs1 fs2); [exact RD| |]; apply OthC; intros Q.
      * apply (DIS (of_name (d_file d))); [rewrite N1; left; reflexivity|exact Q].
      * apply (DIS (of_name (ix_file (d_index d)))); [rewrite N2; right; left; reflexivity|exact Q].
    + split; constructor.
    + reflexivity.
    + exact F2.
    + unfold all_files. cbn [s_data s_down]. rewrite N1, N2, FM. apply NoDup_app_intro; assumption.
  - unfold all_files. cbn [s_data s_down]. rewrite N1, N2, FM. reflexivity.
Qed.
End Create.

(* a refused append with cache levels: an error, nothing written (the checks precede every write) *)
Lemma push_refused_caches fs s p hdr ihdr l cs ts pay : RepS fs s p hdr ihdr l cs -> (ts < 2^64)%N -> accepts p l ts pay = false ->
  exists e, push_line s ts pay fs = (fs, Err e).
Proof.
  intros R Hts A. unfold push_line. rewrite (rd_p _ _ _ _ _ _ _ _ (rs_data _ _ _ _ _ _ _ R)).
  unfold accepts in A. unfold len.
  destruct (length pay =? p) eqn:LP.
  - apply Nat.eqb_eq in LP. replace (N.of_nat (length pay) =? N.of_nat p)%N with true by (symmetry; apply N.eqb_eq; lia).
    cbn [negb]. replace (ts <? U64)%N with true in A by (symmetry; apply N.ltb_lt; unfold U64; exact Hts). cbn [andb] in A.
    rewrite (rs_range _ _ _ _ _ _ _ R), first_last_last_opt.
    destruct l as [|x t]; [discriminate|]. cbn [last_opt option_map] in *. apply N.ltb_ge in A.
    replace (ts <=? fst (last t x))%N with true by (symmetry; apply N.leb_le; exact A). eexists. reflexivity.
  - apply Nat.eqb_neq in LP. replace (N.of_nat (length pay) =? N.of_nat p)%N with false by (symmetry; apply N.eqb_neq; lia).
    cbn [negb]. eexists. reflexivity.
Qed.

(* ---- any number of appends ---- *)
Fixpoint push_lines (s:series) (xs:list line) : M series :=
  match xs with
  | [] => ret s
  | x :: t => let* s' := push_line s (fst x) (snd x) in push_lines s' t
  end.

Lemma wf_accepts p l x t : wf_series p (l ++ x :: t) -> accepts p l (fst x) (snd x) = true.
Proof.
  intros [SS F]. unfold accepts.
  assert (Hx : (fst x < 2^64)%N /\ length (snd x) = p).
  { rewrite Forall_forall in F. apply F. apply in_or_app. right. left. reflexivity. }
  destruct Hx as [H1 H2]. rewrite H2, Nat.eqb_refl. replace (fst x <? U64)%N with true by (symmetry; apply N.ltb_lt; exact H1).
  cbn [andb]. destruct (last_opt l) as [y|] eqn:LO; [|reflexivity]. apply N.ltb_lt.
  assert (IN : In y l).
  { destruct (exists_last (l:=l)) as (l' & y' & E'); [intros Q; rewrite Q in LO; discriminate|].
    rewrite E'. rewrite E', last_opt_snoc in LO. inversion LO. apply in_or_app. right. left. reflexivity. }
  rewrite map_app in SS. cbn [map] in SS. apply sorted_app_inv in SS. destruct SS as (_ & _ & FA).
  rewrite Forall_forall in FA. specialize (FA (fst y) ltac:(apply in_map; exact IN)).
  inversion FA; assumption.
Qed.

Theorem push_lines_caches p hdr ihdr cs : forall xs fs s l,
  RepS fs s p hdr ihdr l cs -> wf_series p (l ++ xs) ->
  exists fs' s', push_lines s xs fs = (fs', Ok s')
    /\ RepS fs' s' p hdr ihdr (l ++ xs) cs
    /\ (forall g, ~ In g (all_files s) -> fs_get fs' g = fs_get fs g)
    /\ all_files s' = all_files s /\ s_cb s' = s_cb s.
Proof.
  induction xs as [|x t IH]; intros fs s l R W.
  - exists fs, s. rewrite app_nil_r. split; [reflexivity|]. split; [exact R|]. split; [intros; reflexivity|split; reflexivity].
  - pose proof (wf_accepts p l x t W) as A.
    destruct (push_line_caches fs s p hdr ihdr l cs (fst x) (snd x) R A) as (fs1 & s1 & E & R1 & Oth & NF & CB & _).
    replace ((fst x, snd x)) with x in R1 by (destruct x; reflexivity).
    replace (l ++ x :: t) with ((l ++ [x]) ++ t) in * by (rewrite <- app_assoc; reflexivity).
    destruct (IH fs1 s1 (l ++ [x]) R1 W) as (fs2 & s2 & E2 & R2 & Oth2 & NF2 & CB2).
    cbn [push_lines]. erewrite mbind_ok by exact E. exists fs2, s2. split; [exact E2|]. split; [exact R2|].
    split; [|split; congruence].
    intros g NI. rewrite Oth2 by (rewrite NF; exact NI). apply Oth. exact NI.
Qed.

(* C08, one session: create with cache levels, append any accepted lines: every cache file holds the bucket means *)
Theorem session_caches p fs name hdr (Bs:list N) cb xs :
  let header := params_to_text BSgen.Consts.version (N.of_nat p) ++ hdr in
  fs_mem fs (name ++ ext_data) = false -> fs_mem fs (name ++ ext_index) = false -> (len header <= 65535)%N ->
  Forall (fun B => (1 <= B)%N /\ (len (config_header name B) <= 65535)%N
                   /\ fs_mem fs (cache_name name B ++ ext_data) = false /\ fs_mem fs (cache_name name B ++ ext_index) = false) Bs ->
  NoDup ([name ++ ext_data; name ++ ext_index] ++ flat_map (cache_names name) Bs) ->
  wf_series p xs ->
  exists fs1 s1 fs2 s2,
    series_new name (N.of_nat p) hdr Bs cb fs = (fs1, Ok s1) /\ push_lines s1 xs fs1 = (fs2, Ok s2)
    /\ RepS fs2 s2 p (le_enc 2 (len header) ++ BSgen.Consts.line_ends ++ header) (le_enc 2 0 ++ BSgen.Consts.line_ends) xs (map (new_spec name) Bs)
    /\ Forall2 (fun ds B =>
         fs_get fs2 (cache_name name B ++ ext_data)
           = Some ((le_enc 2 (len (config_header name B)) ++ BSgen.Consts.line_ends ++ config_header name B)
                   ++ encode p (cache_of p (N.to_nat B) xs))
         /\ fs_get fs2 (cache_name name B ++ ext_index)
           = Some ((le_enc 2 0 ++ BSgen.Consts.line_ends) ++ enc_index (sections p (encode p (cache_of p (N.to_nat B) xs)))))
       (s_down s2) Bs.
Proof.
  intros header M1 M2 Hl F ND W.
  destruct (series_new_caches p fs name hdr Bs cb M1 M2 Hl F ND) as (fs1 & s1 & E1 & R1 & CB & AF).
  destruct (push_lines_caches p _ _ _ xs fs1 s1 [] R1 W) as (fs2 & s2 & E2 & R2 & Oth & AF2 & CB2).
  exists fs1, s1, fs2, s2. split; [exact E1|]. split; [exact E2|]. split; [exact R2|].
  pose proof (RepS_cache_files _ _ _ _ _ _ _ R2) as CF. cbn [app] in CF.
  (* the names of the cache files *)
  assert (NM : map cache_files (s_down s2) = map (cache_names name) Bs).
  { unfold all_files in AF2, AF. rewrite AF in AF2.
    assert (Q : flat_map cache_files (s_down s2) = flat_map (cache_names name) Bs).
    { cbn [app] in AF2. inversion AF2. reflexivity. }
    clear -Q CF. revert Bs Q CF. induction (s_down s2) as [|ds t IH]; intros Bs Q CF; destruct Bs as [|B Bt]; try (inversion CF; fail); [reflexivity|].
    cbn [map flat_map cache_files cache_names app] in *. inversion Q as [[Q1 Q2 Q3]]. inversion CF; subst.
    f_equal; [unfold cache_files, cache_names; rewrite Q1, Q2; reflexivity|]. apply IH; assumption. }
  clear -CF NM. revert Bs NM CF. induction (s_down s2) as [|ds t IH]; intros Bs NM CF; destruct Bs as [|B Bt]; try discriminate; [constructor|].
  cbn [map] in *. inversion NM as [[Q1 Q2]]. inversion CF as [|? ? ? ? [[G1 _] [G2 _]] CFt]; subst.
  constructor; [|apply IH; assumption]. cbn [new_spec fst snd] in *. rewrite <- Q1, <- Q2. split; assumption.
Qed.

(* ---- C11: resampling reads through the cache levels ---- *)
Require Import BS.RangeFacts BS.RangeRead BS.ReadAllFacts.

Lemma pick_level_mem : forall (t:list dsample) cur n lo hi d,
  pick_level cur t n lo hi = Ok d -> d = cur \/ In d (map ds_data t).
Proof.
  induction t as [|ds t IH]; intros cur n lo hi d H; cbn [pick_level] in H.
  - inversion H. left. reflexivity.
  - destruct (ds_estimate ds lo hi) as [e|e| |]; cbn [bind] in H; try discriminate.
    destruct e as [[mx mn]|]; [|inversion H; left; reflexivity].
    destruct (mx <? n)%N; [inversion H; left; reflexivity|].
    destruct (mn <? n)%N; [inversion H; left; reflexivity|].
    destruct (IH _ _ _ _ _ H) as [->|IN]; right; cbn [map In]; auto.
Qed.

(* a cache level as a series of its own *)
Definition as_series (d:data) (cb:cbmode) (cl:list line) : series :=
  {| s_data := d; s_down := []; s_cb := cb; s_range := first_last cl |}.

Lemma read_n_on_level (s:series) d n lo hi fs :
  sorted_lens (s_down s) = Ok true -> pick_level (s_data s) (s_down s) n lo hi = Ok d ->
  forall cl, read_n s n lo hi fs = read_n (as_series d (s_cb s) cl) n lo hi fs.
Proof.
  intros SL PL cl. unfold read_n. rewrite SL. cbn [as_series s_down sorted_lens s_data s_cb].
  destruct (n =? 0)%N; [reflexivity|]. rewrite PL. cbn [pick_level]. reflexivity.
Qed.

Section ReadLevels.
Variable p : nat.

Definition levels (l:list line) (cs:list cspec) : list (list line) := l :: map (fun c => cache_of p (fst c) l) cs.

Lemma cache_as_series fs ds c l cb : cache_ok p fs l ds c ->
  exists chdr cihdr, RepH fs (as_series (ds_data ds) cb (cache_of p (fst c) l)) p chdr cihdr (cache_of p (fst c) l).
Proof.
  intros [Hb (k & done & pend & El & Ld & RC & _)].
  assert (E : cache_of p (fst c) l = cache_of p (fst c) done).
  { unfold cache_of. rewrite El, (buckets_app (fst c) Hb k done pend Ld), (buckets_short (fst c) pend) by (apply (rc_len _ _ _ _ _ _ _ _ RC)).
    rewrite app_nil_r. reflexivity. }
  rewrite E. exists (fst (snd c)), (snd (snd c)). constructor; cbn [as_series s_data s_down s_range].
  - exact (rc_data _ _ _ _ _ _ _ _ RC).
  - exact (rc_wf _ _ _ _ _ _ _ _ RC).
  - reflexivity.
  - reflexivity.
Qed.

(* whatever level the estimate loop settles on, the answer is the uniform resampling of that level's lines in the range *)
Theorem read_n_levels fs s hdr ihdr l cs n lo hi d :
  RepS fs s p hdr ihdr l cs -> (1 <= n)%N ->
  sorted_lens (s_down s) = Ok true -> pick_level (s_data s) (s_down s) n lo hi = Ok d ->
  exists lev, In lev (levels l cs)
    /\ ((exists b, b >= 1 /\ read_n s n lo hi fs = (fs, Ok (resample p b (select lo hi lev)))
                   /\ (len (resample p b (select lo hi lev)) <= 2 * n)%N)
        \/ (select lo hi lev = [] /\ read_n s n lo hi fs = (fs, Err ERange))).
Proof.
  intros R Hn SL PL. destruct (pick_level_mem _ _ _ _ _ _ PL) as [->|IN].
  - exists l. split; [left; reflexivity|].
    rewrite (read_n_on_level s (s_data s) n lo hi fs SL PL l).
    assert (RH : RepH fs (as_series (s_data s) (s_cb s) l) p hdr ihdr l).
    { constructor; cbn [as_series s_data s_down s_range]; [exact (rs_data _ _ _ _ _ _ _ R)|exact (rs_wf _ _ _ _ _ _ _ R)|reflexivity|reflexivity]. }
    apply (read_n_ok fs _ p hdr ihdr l RH n lo hi eq_refl Hn).
  - apply in_map_iff in IN. destruct IN as (ds & Ed & INds).
    pose proof (rs_caches _ _ _ _ _ _ _ R) as F2.
    assert (EX : exists c, In c cs /\ cache_ok p fs l ds c).
    { clear -F2 INds. induction F2 as [|d0 c0 t ct H0 F2 IH]; [contradiction|].
      destruct INds as [->|IN]; [exists c0; split; [left; reflexivity|exact H0]|].
      destruct (IH IN) as (c & Hc & OK). exists c. split; [right; exact Hc|exact OK]. }
    destruct EX as (c & Hc & OK). exists (cache_of p (fst c) l). split.
    { right. apply in_map_iff. exists c. split; [reflexivity|exact Hc]. }
    destruct (cache_as_series fs ds c l (s_cb s) OK) as (chdr & cihdr & RH).
    rewrite (read_n_on_level s d n lo hi fs SL PL (cache_of p (fst c) l)). rewrite <- Ed.
    apply (read_n_ok fs _ p chdr cihdr _ RH n lo hi eq_refl Hn).
Qed.
End ReadLevels.

(* the order check at the start of read_n passes when the bucket sizes were given in ascending order *)
Section OrderCheck.
Variable p : nat.

Lemma cache_len_lines fs ds c l : cache_ok p fs l ds c ->
  data_len_lines (ds_data ds) = Ok (N.of_nat (length l / fst c)).
Proof.
  intros OK. destruct (cache_as_series p fs ds c l CbNone OK) as (chdr & cihdr & RH).
  pose proof (len_ok fs _ p chdr cihdr _ RH) as LO. cbn [as_series s_data] in LO. rewrite LO.
  unfold len, cache_of. rewrite map_length, buckets_length by apply OK. reflexivity.
Qed.

Lemma sorted_lens_step a b t : sorted_lens (a :: b :: t)
  = (do la <- data_len_lines (ds_data a); do lb <- data_len_lines (ds_data b);
     if (lb <=? la)%N then sorted_lens (b :: t) else Ok false).
Proof. reflexivity. Qed.

Lemma sorted_lens_ok fs l : forall down cs, Forall2 (cache_ok p fs l) down cs -> StronglySorted le (map fst cs) ->
  sorted_lens down = Ok true.
Proof.
  intros down cs F2. induction F2 as [|ds c t ct OK F2 IH]; intros SS; [reflexivity|].
  cbn [map] in SS. inversion SS as [|? ? St Hall]; subst.
  destruct F2 as [|ds2 c2 t2 ct2 OK2 F2']; [reflexivity|].
  rewrite sorted_lens_step, (cache_len_lines fs ds c l OK), (cache_len_lines fs ds2 c2 l OK2). cbn [bind].
  assert (LE : fst c <= fst c2) by (cbn [map] in Hall; inversion Hall; assumption).
  replace (N.of_nat (length l / fst c2) <=? N.of_nat (length l / fst c))%N with true.
  - apply IH. exact St.
  - symmetry. apply N.leb_le. assert (length l / fst c2 <= length l / fst c) by (apply Nat.div_le_compat_l; destruct OK as [Hb _]; lia). lia.
Qed.
End OrderCheck.

