(* C08 / C10: "no intermediate sum overflows for any timestamp magnitude". The model sums bucket timestamps in unbounded N;
   the Rust (after the repair of D9) sums them in u128 and converts the mean back to u64. These lemmas justify the unbounded
   model: for a bucket of at most 2^64 lines (a usize count) whose timestamps are u64 values, every partial sum stays
   below 2^128 and the mean is again a u64 - so neither the u128 accumulator nor the conversion of the mean can overflow,
   and the model and the code compute the same number. The payload columns are sums of at most 2^64 bytes: below 2^72. *)
From Coq Require Import List NArith ZArith Lia Bool Arith ZifyBool ZifyN ZifyNat.
Require Import BS.Bytes BS.Common BS.CommonFacts BS.Api BS.Spec BS.CacheFacts.
Import ListNotations.
Close Scope N_scope. Open Scope nat_scope.

Lemma sum_fits_u128 (xs:list N) : Forall (fun x => (x < 2^64)%N) xs -> (N.of_nat (length xs) <= 2^64)%N ->
  (sum_N xs < 2^128)%N.
Proof.
  intros F L.
  assert (F' : Forall (fun x => (x <= 2^64 - 1)%N) xs) by (eapply Forall_impl; [|exact F]; intros a Ha; cbn beta in *; lia).
  pose proof (sum_N_le (2^64 - 1)%N xs F') as B.
  assert ((N.of_nat (length xs) * (2^64 - 1) <= 2^64 * (2^64 - 1))%N) by (apply N.mul_le_mono_r; exact L).
  assert ((2^64 * (2^64 - 1) < 2^128)%N) by reflexivity. lia.
Qed.

(* every prefix of the bucket, i.e. every intermediate value of the accumulator *)
Lemma partial_sums_fit_u128 (xs:list N) k : Forall (fun x => (x < 2^64)%N) xs -> (N.of_nat (length xs) <= 2^64)%N ->
  (sum_N (firstn k xs) < 2^128)%N.
Proof.
  intros F L. apply sum_fits_u128.
  - rewrite <- (firstn_skipn k xs) in F. apply Forall_app in F. apply F.
  - rewrite firstn_length. lia.
Qed.

Lemma mean_fits_u64 (xs:list N) : xs <> [] -> Forall (fun x => (x < 2^64)%N) xs ->
  (sum_N xs / N.of_nat (length xs) < 2^64)%N.
Proof.
  intros NE F.
  assert (F' : Forall (fun x => (x <= 2^64 - 1)%N) xs) by (eapply Forall_impl; [|exact F]; intros a Ha; cbn beta in *; lia).
  pose proof (sum_N_le (2^64 - 1)%N xs F') as B.
  assert (Hn : (0 < N.of_nat (length xs))%N) by (destruct xs; [contradiction|cbn [length]; lia]).
  apply N.div_lt_upper_bound; [lia|]. lia.
Qed.

(* the mean of a bucket lies between its smallest and its largest timestamp *)
Lemma mean_between (xs:list N) lo hi : xs <> [] -> Forall (fun x => (lo <= x <= hi)%N) xs ->
  (lo <= sum_N xs / N.of_nat (length xs) <= hi)%N.
Proof.
  intros NE F.
  assert (Fl : Forall (fun x => (lo <= x)%N) xs) by (eapply Forall_impl; [|exact F]; intros a Ha; cbn beta in *; lia).
  assert (Fh : Forall (fun x => (x <= hi)%N) xs) by (eapply Forall_impl; [|exact F]; intros a Ha; cbn beta in *; lia).
  pose proof (sum_N_le hi xs Fh) as B1. pose proof (sum_N_ge lo xs Fl) as B2.
  assert (Hn : (0 < N.of_nat (length xs))%N) by (destruct xs; [contradiction|cbn [length]; lia]).
  split.
  - apply N.div_le_lower_bound; [lia|]. lia.
  - apply N.div_le_upper_bound; [lia|]. lia.
Qed.
