(* The judge: Layer S (SpecStep) instantiated with the header texts of the library. This, not
   Layer I, decides whether an observed behaviour of the implementation satisfies the properties. *)
From Coq Require Import List NArith Bool Arith.
From Coq Require Import Strings.Byte.
Require Import BS.Bytes BS.Common BS.Api BS.Format BS.Spec BS.SpecStep BS.Known BS.Header.
Require BSgen.Consts.
Import ListNotations.

Definition j_data_header (p:nat) (hdr:list byte) : list byte := params_to_text 1%N (N.of_nat p) ++ hdr.
Definition j_cache_header (name:list byte) (B:N) : list byte := config_header name B.
Definition judge_step : sstate -> op -> sstate * (out -> bool) := spec_step j_data_header j_cache_header.
Definition judge_files : sstate -> sfs := expected_files j_data_header j_cache_header.
Definition judge_init : sstate := spec_init.
Definition judge_class (s:sstate) (o:op) : N :=
  match o with
  | OOpen name _ _ caches _ => open_class j_data_header j_cache_header s name caches
  | ONew name _ _ caches _ => new_class j_data_header j_cache_header s name caches
  | _ => 0%N
  end.
