(* The judge: Layer S (SpecStep) instantiated with the header texts of the library. This, not
   Layer I, decides whether an observed behaviour of the implementation satisfies the properties. *)
From Coq Require Import List NArith Bool Arith.
From Coq Require Import Strings.Byte.
Require Import BS.Bytes BS.Common BS.Api BS.Format BS.Spec BS.SpecStep BS.Header.
Require BSgen.Consts.
Import ListNotations.

Definition j_data_header (p:nat) (hdr:list byte) : list byte := params_to_text 1%N (N.of_nat p) ++ hdr.
Definition j_cache_header (name:list byte) (B:N) : list byte := config_header name B.
Definition judge_step : sstate -> op -> sstate * (out -> bool) := spec_step j_data_header j_cache_header.
Definition judge_files : sstate -> sfs := expected_files j_data_header j_cache_header.
Definition judge_init : sstate := spec_init.
