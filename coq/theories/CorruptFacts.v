(* C18: the reader on arbitrary bytes. Whatever the region holds, read_with_processor hands the
   processor exactly the lines the skipping decoder of Layer S (Spec.lenient) certifies:
   with a consenting callback all of them, without consent those before the first lone marker
   line, followed by the corruption error. *)
From Coq Require Import List NArith ZArith Lia Bool Arith ZifyBool ZifyN ZifyNat.
From Coq Require Import Strings.Byte.
Require Import BS.Bytes BS.Common BS.CommonFacts BS.Api BS.Layout BS.Format BS.FormatFacts BS.Spec.
Require Import BS.Meta BS.MetaFacts BS.Reader BS.ReaderFacts.
Require BSgen.Consts.
Import ListNotations.
Close Scope N_scope. Open Scope nat_scope.
Arguments N.add : simpl never. Arguments N.mul : simpl never. Arguments N.sub : simpl never.
Arguments N.ltb : simpl never. Arguments N.leb : simpl never. Arguments N.eqb : simpl never.

Section Corrupt.
Variable St : Type.
Variable proc : St -> N -> list byte -> pres St.
Variable p : nat.
Notation L := (p + 2).

(* the skipping decoder as a function of the slots: lines in order, final state, lone markers met,
   and how many lines had been produced when the first lone marker was met *)
Record lrun := { lr_lines : list line; lr_st : lstate; lr_lone : nat; lr_first : option nat }.

Definition lstate_of (f:N) (st:rst) : lstate :=
  match st with
  | RN => LN (Some f) false
  | RS => LN (Some f) true
  | R1 a => L1 (Some f) a
  | R2 a b got => L2 (Some f) a b got
  end.

(* one slot: what the reader does with it *)
Inductive cres := CLine (y:line) (st':rst) | CSilent (f':N) (st':rst) | CLone.
Definition cstep (f:N) (st:rst) (x:slot) : cres :=
  match st with
  | RN => if Meta.is_marker x then CSilent f (R1 x) else CLine ((f + le_dec (firstn 2 x))%N, skipn 2 x) RN
  | RS => if Meta.is_marker x then CSilent f (R1 x) else CSilent f RS
  | R1 a => if Meta.is_marker x
            then (if Meta.ncont p =? 0 then CSilent (meta_read_ts p a x []) RN else CSilent f (R2 a x []))
            else CLone
  | R2 a b got => let got' := got ++ [x] in
                  if length got' =? Meta.ncont p then CSilent (meta_read_ts p a b got') RN else CSilent f (R2 a b got')
  end.

(* slots held by a state have the line size *)
Definition wl (st:rst) : Prop :=
  match st with
  | RN | RS => True
  | R1 a => length a = L
  | R2 a b got => length a = L /\ length b = L /\ Forall (fun s => length s = L) got /\ length got < Meta.ncont p
  end.
Definition cres_wl (c:cres) : Prop := match c with CLine _ st' => wl st' | CSilent _ st' => wl st' | CLone => True end.
Lemma cstep_wl f st x : wl st -> length x = L -> cres_wl (cstep f st x).
Proof.
  intros W Lx. destruct st as [| |a|a b got]; cbn [cstep wl] in *.
  - destruct (Meta.is_marker x); exact Lx || exact I.
  - destruct (Meta.is_marker x); exact Lx || exact I.
  - destruct (Meta.is_marker x); [|exact I]. destruct (Meta.ncont p =? 0) eqn:C; cbn [cres_wl wl]; [exact I|].
    apply Nat.eqb_neq in C. repeat split; try assumption; [constructor|cbn [length]; lia].
  - destruct W as (La & Lb & Fg & Ng). destruct (length (got ++ [x]) =? Meta.ncont p) eqn:C; cbn [cres_wl wl]; [exact I|].
    apply Nat.eqb_neq in C. rewrite app_length in *. cbn [length] in *. repeat split; try assumption; [|lia].
    apply Forall_app. split; [exact Fg|constructor; [exact Lx|constructor]].
Qed.

(* the decoder of Layer S makes the same step *)
Lemma lstep_cstep f st x (s:lscan) : l_st s = lstate_of f st -> wl st -> length x = L ->
  let s' := lstep p s x in
  l_bad s' = l_bad s /\
  match cstep f st x with
  | CLine y st' => l_st s' = lstate_of f st' /\ l_sure s' = y :: l_sure s /\ l_first s' = l_first s /\ l_lone s' = l_lone s
  | CSilent f' st' => l_st s' = lstate_of f' st' /\ l_sure s' = l_sure s /\ l_first s' = l_first s /\ l_lone s' = l_lone s
  | CLone => l_st s' = lstate_of f RS /\ l_sure s' = l_sure s /\ l_lone s' = S (l_lone s)
             /\ l_first s' = match l_first s with None => Some (length (l_sure s)) | o => o end
  end.
Proof.
  intros E W Lx. destruct st as [| |a|a b got]; cbn [cstep lstate_of wl] in *; unfold lstep; rewrite E;
    rewrite <- ?is_marker_eq, <- ?ncont_eq.
  - destruct (Meta.is_marker x); cbn; repeat split; reflexivity.
  - destruct (Meta.is_marker x); cbn; repeat split; try reflexivity; exact E.
  - destruct (Meta.is_marker x); [destruct (Meta.ncont p =? 0) eqn:C|]; cbn; repeat split; try reflexivity.
    rewrite meta_read_is_read_ts; [reflexivity|exact W|exact Lx|constructor|apply Nat.eqb_eq in C; symmetry; exact C].
  - destruct W as (La & Lb & Fg & Ng).
    destruct (length (got ++ [x]) =? Meta.ncont p) eqn:C; cbn; repeat split; try reflexivity.
    rewrite meta_read_is_read_ts; [reflexivity|exact La|exact Lb| |apply Nat.eqb_eq in C; exact C].
    apply Forall_app. split; [exact Fg|constructor; [exact Lx|constructor]].
Qed.

(* the reader's step in terms of cstep *)
Lemma line_step_cstep cb f st acc x :
  line_step St proc p cb f st acc x
  = match cstep f st x with
    | CLine y st' => if (fst y <? U64)%N
                     then match proc acc (fst y) (snd y) with PCont a => LCont f st' a | PStop a => LStop a | PPanic => LPanic end
                     else LPanic
    | CSilent f' st' => LCont f' st' acc
    | CLone => match cb with CbAllow => LCont f RS acc | _ => LCorrupt acc end
    end.
Proof.
  destruct st as [| |a|a b got]; cbn [cstep Reader.line_step].
  - destruct (Meta.is_marker x); [reflexivity|]. unfold ts_from, u64_add. cbn [fst snd].
    destruct (f + le_dec (firstn 2 x) <? U64)%N; reflexivity.
  - destruct (Meta.is_marker x); reflexivity.
  - destruct (Meta.is_marker x); [|destruct cb; reflexivity].
    destruct (Meta.ncont p =? 0); reflexivity.
  - destruct (length (got ++ [x]) =? Meta.ncont p); reflexivity.
Qed.

(* all lines the skipping decoder certifies, in order, and where it ends *)
Fixpoint crun (f:N) (st:rst) (ls:list slot) : list line * N * rst :=
  match ls with
  | [] => ([], f, st)
  | x :: t => match cstep f st x with
              | CLine y st' => let '(out, f2, st2) := crun f st' t in (y :: out, f2, st2)
              | CSilent f' st' => crun f' st' t
              | CLone => crun f RS t
              end
  end.
(* ... those before the first lone marker; Some = a lone marker was met *)
Fixpoint cstop (f:N) (st:rst) (ls:list slot) : list line * option (N * rst) :=
  match ls with
  | [] => ([], Some (f, st))
  | x :: t => match cstep f st x with
              | CLine y st' => let '(out, e) := cstop f st' t in (y :: out, e)
              | CSilent f' st' => cstop f' st' t
              | CLone => ([], None)
              end
  end.

(* Layer S's decoder computes crun *)
Lemma lenient_crun : forall ls f st (s:lscan), l_st s = lstate_of f st -> wl st -> Forall (fun x => length x = L) ls ->
  let s' := fold_left (lstep p) ls s in
  let '(out, f', st') := crun f st ls in
  l_st s' = lstate_of f' st' /\ l_sure s' = rev out ++ l_sure s /\ l_bad s' = l_bad s.
Proof.
  induction ls as [|x t IH]; intros f st s E W FL; cbn [fold_left crun]; [repeat split; exact E|].
  inversion FL as [|? ? Lx Ft]; subst.
  destruct (lstep_cstep f st x s E W Lx) as [B1 H1]. pose proof (cstep_wl f st x W Lx) as W1.
  destruct (cstep f st x) as [y st1|f1 st1|]; cbn [cres_wl] in W1.
  - destruct H1 as (E1 & S1 & _). specialize (IH f st1 (lstep p s x) E1 W1 Ft). destruct (crun f st1 t) as [[out f2] st2].
    destruct IH as (E2 & S2 & B2). repeat split; [exact E2| |congruence].
    rewrite S2, S1. cbn [rev]. rewrite <- app_assoc. reflexivity.
  - destruct H1 as (E1 & S1 & _). specialize (IH f1 st1 (lstep p s x) E1 W1 Ft). destruct (crun f1 st1 t) as [[out f2] st2].
    destruct IH as (E2 & S2 & B2). repeat split; [exact E2| |congruence]. rewrite S2, S1. reflexivity.
  - destruct H1 as (E1 & S1 & _). specialize (IH f RS (lstep p s x) E1 I Ft). destruct (crun f RS t) as [[out f2] st2].
    destruct IH as (E2 & S2 & B2). repeat split; [exact E2| |congruence]. rewrite S2, S1. reflexivity.
Qed.

Lemma l_first_stays : forall ls (s0:lscan) v, l_first s0 = Some v -> l_first (fold_left (lstep p) ls s0) = Some v.
Proof.
  induction ls as [|y ls IH]; intros s0 v H; cbn [fold_left]; [exact H|]. apply IH.
  unfold lstep. destruct (l_st s0) as [full skip|full a|full a b got]; cbn.
  - destruct (Layout.is_marker y); [exact H|]. destruct skip; [exact H|]. destruct full; exact H.
  - destruct (Layout.is_marker y); [destruct (Layout.ncont p =? 0); exact H|]. cbn. rewrite H. reflexivity.
  - destruct (length (got ++ [y]) =? Layout.ncont p); exact H.
Qed.

(* ... and where the first lone marker is *)
Lemma lenient_cstop : forall ls f st (s:lscan), l_st s = lstate_of f st -> wl st -> Forall (fun x => length x = L) ls ->
  l_first s = None ->
  let s' := fold_left (lstep p) ls s in
  let '(out, e) := cstop f st ls in
  l_first s' = match e with None => Some (length out + length (l_sure s)) | Some _ => None end.
Proof.
  induction ls as [|x t IH]; intros f st s E W FL FN; cbn [fold_left cstop]; [exact FN|].
  inversion FL as [|? ? Lx Ft]; subst.
  destruct (lstep_cstep f st x s E W Lx) as [_ H1]. pose proof (cstep_wl f st x W Lx) as W1.
  destruct (cstep f st x) as [y st1|f1 st1|]; cbn [cres_wl] in W1.
  - destruct H1 as (E1 & S1 & F1 & _). specialize (IH f st1 (lstep p s x) E1 W1 Ft ltac:(congruence)).
    destruct (cstop f st1 t) as [out e]. rewrite IH, S1. destruct e; [reflexivity|]. cbn [length]. f_equal. lia.
  - destruct H1 as (E1 & S1 & F1 & _). specialize (IH f1 st1 (lstep p s x) E1 W1 Ft ltac:(congruence)).
    destruct (cstop f1 st1 t) as [out e]. rewrite IH, S1. reflexivity.
  - destruct H1 as (_ & _ & _ & F1). rewrite FN in F1. cbn [length Nat.add]. apply l_first_stays. exact F1.
Qed.

(* the lines before the first lone marker are a prefix of all certified lines *)
Lemma cstop_prefix : forall ls f st,
  let '(out, e) := cstop f st ls in
  let '(all, f', st') := crun f st ls in
  out = firstn (length out) all /\ match e with Some fs => out = all /\ fs = (f', st') | None => True end.
Proof.
  induction ls as [|x t IH]; intros f st; cbn [cstop crun]; [repeat split; reflexivity|].
  destruct (cstep f st x) as [y st1|f1 st1|].
  - specialize (IH f st1). destruct (cstop f st1 t) as [out e]. destruct (crun f st1 t) as [[all f2] st2].
    destruct IH as [P Q]. split; [cbn [length firstn]; f_equal; exact P|].
    destruct e; [|exact I]. destruct Q as [-> ->]. split; reflexivity.
  - apply IH.
  - destruct (crun f RS t) as [[all f2] st2]. split; [reflexivity|exact I].
Qed.

(* ---- the reader ---- *)
(* with consent: the processor is fed every certified line *)
Theorem scan_consent : forall ls f st acc,
  let '(out, f', st') := crun f st ls in
  scan_lines St proc p CbAllow f st acc ls
  = match feed St proc acc out with PCont a => LCont f' st' a | PStop a => LStop a | PPanic => LPanic end.
Proof.
  induction ls as [|x t IH]; intros f st acc; cbn [crun Reader.scan_lines feed]; [reflexivity|].
  rewrite (line_step_cstep CbAllow f st acc x).
  destruct (cstep f st x) as [y st1|f1 st1|].
  - specialize (IH f st1). destruct (crun f st1 t) as [[out f2] st2]. cbn [feed].
    destruct (fst y <? U64)%N; [|reflexivity]. destruct (proc acc (fst y) (snd y)); try reflexivity. apply IH.
  - apply IH.
  - apply IH.
Qed.

(* without consent: the lines before the first lone marker, then the corruption error *)
Theorem scan_no_consent : forall cb, cb <> CbAllow -> forall ls f st acc,
  let '(out, e) := cstop f st ls in
  scan_lines St proc p cb f st acc ls
  = match feed St proc acc out with
    | PCont a => match e with Some (f', st') => LCont f' st' a | None => LCorrupt a end
    | PStop a => LStop a
    | PPanic => LPanic
    end.
Proof.
  intros cb Hcb. induction ls as [|x t IH]; intros f st acc; cbn [cstop Reader.scan_lines feed]; [reflexivity|].
  rewrite (line_step_cstep cb f st acc x).
  destruct (cstep f st x) as [y st1|f1 st1|].
  - specialize (IH f st1). destruct (cstop f st1 t) as [out e]. cbn [feed].
    destruct (fst y <? U64)%N; [|reflexivity]. destruct (proc acc (fst y) (snd y)); try reflexivity. apply IH.
  - apply IH.
  - cbn [feed]. destruct cb; try reflexivity. contradiction.
Qed.

(* read_with_processor over any aligned byte range is one pass of the line automaton *)
Theorem rwp_is_scan cb (region:list byte) (start stop:nat) (f:N) (acc:St) :
  start <= stop -> stop <= length region -> (stop - start) mod L = 0 ->
  read_with_processor St proc p cb region (N.of_nat start) (N.of_nat stop) f acc
  = result_of St (scan_lines St proc p cb f RN acc (chunks L (firstn (stop - start) (skipn start region)))).
Proof.
  intros Hss Hsr Hm.
  unfold read_with_processor.
  replace (N.of_nat stop <? N.of_nat start)%N with false by (symmetry; apply N.ltb_ge; lia).
  set (chunkN := next_multiple_of BSgen.Consts.read_chunk (N.of_nat L)).
  destruct (next_multiple_of_spec' BSgen.Consts.read_chunk (N.of_nat L) ltac:(lia)) as (CM & CGE & _).
  fold chunkN in CM, CGE.
  assert (CPOS : (0 < chunkN)%N) by (assert (0 < BSgen.Consts.read_chunk)%N by reflexivity; lia).
  set (to_read := (N.of_nat stop - N.of_nat start)%N).
  assert (TR : to_read = N.of_nat (stop - start)) by (unfold to_read; lia).
  pose proof (chunk_loop_is_scan St proc p cb
               (S (N.to_nat (N.min (to_read / chunkN) (len region / chunkN + 1)))) (N.to_nat chunkN)
               region start (stop - start) f RN acc) as CL.
  cbn [held_slots concat base] in CL. rewrite N2Nat.id, <- TR in CL.
  apply CL; clear CL.
  - lia.
  - replace L with (N.to_nat (N.of_nat L)) by lia. rewrite <- N2Nat.inj_mod by lia. rewrite CM. reflexivity.
  - exact Hm.
  - lia.
  - assert (Hd : (to_read / chunkN <= len region / chunkN)%N) by (apply N.div_le_mono; unfold to_read, len; lia).
    rewrite N.min_l by lia.
    pose proof (N.div_mod to_read chunkN ltac:(lia)). pose proof (N.mod_lt to_read chunkN ltac:(lia)).
    assert (N.of_nat (stop - start) <= N.of_nat (S (N.to_nat (to_read / chunkN)) * N.to_nat chunkN))%N; [|lia].
    rewrite <- TR. rewrite Nat2N.inj_mul, Nat2N.inj_succ, !N2Nat.id. nia.
  - reflexivity.
  - exact I.
  - constructor.
Qed.

Lemma chunks_lengths (region:list byte) (start stop:nat) : start <= stop -> stop <= length region -> (stop - start) mod L = 0 ->
  Forall (fun x : list byte => length x = L) (chunks L (firstn (stop - start) (skipn start region))).
Proof.
  intros Hss Hsr Hm.
  destruct (aligned_split L ((stop - start) / L) (firstn (stop - start) (skipn start region))) as (ls & E & F & N).
  { rewrite firstn_length, skipn_length. pose proof (Nat.div_mod (stop - start) L ltac:(lia)). lia. }
  rewrite E, chunks_concat by (try lia; exact F). exact F.
Qed.

(* ---- C18 on the reader, in terms of Layer S's decoder ---- *)
Definition lscan_from (f:N) : lscan := {| l_st := LN (Some f) false; l_sure := []; l_lone := 0; l_bad := false; l_first := None |}.
Definition certified (f:N) (bytes:list byte) : lscan := fold_left (lstep p) (chunks L bytes) (lscan_from f).

(* with a consenting callback the processor sees exactly the certified lines, whatever the bytes are *)
Theorem read_consent (region:list byte) (start stop:nat) (f:N) (acc:St) :
  start <= stop -> stop <= length region -> (stop - start) mod L = 0 ->
  read_with_processor St proc p CbAllow region (N.of_nat start) (N.of_nat stop) f acc
  = match feed St proc acc (rev (l_sure (certified f (firstn (stop - start) (skipn start region))))) with
    | PCont a => RDone a | PStop a => RStopped a | PPanic => RPanic
    end.
Proof.
  intros Hss Hsr Hm. rewrite rwp_is_scan by assumption.
  pose proof (scan_consent (chunks L (firstn (stop - start) (skipn start region))) f RN acc) as SC.
  pose proof (lenient_crun (chunks L (firstn (stop - start) (skipn start region))) f RN (lscan_from f) eq_refl I (chunks_lengths region start stop Hss Hsr Hm)) as LC.
  destruct (crun f RN (chunks L (firstn (stop - start) (skipn start region)))) as [[out f'] st'].
  destruct LC as (_ & LS & _). unfold certified. rewrite LS. cbn [lscan_from l_sure]. rewrite app_nil_r, rev_involutive.
  rewrite SC. destruct (feed St proc acc out); reflexivity.
Qed.

(* without consent (no callback, or one that answers false): the certified lines before the first lone
   marker line, then the corruption error; without a lone marker, all of them *)
Theorem read_no_consent cb (region:list byte) (start stop:nat) (f:N) (acc:St) : cb <> CbAllow ->
  start <= stop -> stop <= length region -> (stop - start) mod L = 0 ->
  let c := certified f (firstn (stop - start) (skipn start region)) in
  read_with_processor St proc p cb region (N.of_nat start) (N.of_nat stop) f acc
  = match l_first c with
    | None => match feed St proc acc (rev (l_sure c)) with PCont a => RDone a | PStop a => RStopped a | PPanic => RPanic end
    | Some k => match feed St proc acc (firstn k (rev (l_sure c))) with PCont a => RCorrupt a | PStop a => RStopped a | PPanic => RPanic end
    end.
Proof.
  intros Hcb Hss Hsr Hm c. rewrite rwp_is_scan by assumption.
  set (ls := chunks L (firstn (stop - start) (skipn start region))) in *.
  pose proof (scan_no_consent cb Hcb ls f RN acc) as SC.
  pose proof (lenient_crun ls f RN (lscan_from f) eq_refl I (chunks_lengths region start stop Hss Hsr Hm)) as LC.
  pose proof (lenient_cstop ls f RN (lscan_from f) eq_refl I (chunks_lengths region start stop Hss Hsr Hm) eq_refl) as LF.
  pose proof (cstop_prefix ls f RN) as PF.
  destruct (cstop f RN ls) as [out e]. destruct (crun f RN ls) as [[all f'] st'].
  destruct LC as (_ & LS & _). cbn [lscan_from l_sure length] in LF, LS. rewrite app_nil_r in LS.
  unfold c, certified. fold ls. rewrite LF, LS, rev_involutive. rewrite SC.
  destruct PF as [P Q]. destruct e as [[f2 st2]|].
  - destruct Q as [-> _]. destruct (feed St proc acc all); reflexivity.
  - rewrite Nat.add_0_r, <- P. destruct (feed St proc acc out); reflexivity.
Qed.
End Corrupt.
