(* Layer I: src/series/downsample.rs, src/series/downsample/repair.rs, src/series.rs, src/builder.rs *)
From Coq Require Import List NArith Bool Arith.
From Coq Require Import Strings.Byte.
Require Import BS.Bytes BS.Common BS.Api BS.FS BS.Meta BS.Header BS.Reader BS.Index BS.Data BS.Seek.
Require BSgen.Consts.
Import ListNotations.
Close Scope N_scope. Open Scope nat_scope.

(* ---- DownSampledData ---- *)
Record dsample := {
  ds_data : data; ds_B : N;
  ds_in_bin : N; ds_sum : N; ds_state : list N }.

(* DownSampled::process *)
Definition ds_process (ds:dsample) (ts:N) (line:list byte) : M dsample :=
  let st := rs_add (ds_state ds) (rs_decode line) in
  let sum := (ds_sum ds + ts)%N in
  let k := (ds_in_bin ds + 1)%N in
  if (ds_B ds <=? k)%N then
    if (ds_B ds =? 0)%N then mpanic else                    (* division by zero in finish *)
    let item := rs_finish st (ds_B ds) in
    let rt := (sum / ds_B ds)%N in
    if (ts <? rt)%N then mpanic else                        (* assert!(resampled_time <= ts) *)
    let* d' := push_data (ds_data ds) rt (rs_encode item) in
    ret {| ds_data := d'; ds_B := ds_B ds; ds_in_bin := 0; ds_sum := 0; ds_state := rs_zero (d_p (ds_data ds)) |}
  else ret {| ds_data := ds_data ds; ds_B := ds_B ds; ds_in_bin := k; ds_sum := sum; ds_state := st |}.

(* DownSampledData::new *)
Definition ds_new (name:fname) (B:N) (p:nat) : M dsample :=
  let* d := data_new (cache_name name B) p (config_header name B) in
  ret {| ds_data := d; ds_B := B; ds_in_bin := 0; ds_sum := 0; ds_state := rs_zero p |}.

(* the closure of DownSampledData::create: state = (prev_ts, cache, file system) - the closure
   writes to the cache files, so it carries the file system *)
Definition proc_create (s:N * dsample * fsys) (ts:N) (pay:list byte) : pres (N * dsample * fsys) :=
  let '(prev, ds, fs) := s in
  if negb ((prev <? ts) || (prev =? 0))%N then PPanic else
  match ds_process ds ts pay fs with
  | (fs', Ok ds') => PCont (ts, ds', fs')
  | (fs', Err _) => PStop (ts, ds, fs')
  | (_, _) => PPanic
  end.

(* DownSampledData::create *)
Definition ds_create (name:fname) (B:N) (p:nat) (source:data) (cb:cbmode) : M dsample :=
  let* empty := ds_new name B p in
  match ix_entries (d_index source) with
  | [] => ret empty
  | e0 :: _ =>
      let* region := of_read_from (d_file source) 0 in
      fun fs =>
        match read_with_processor _ proc_create p cb region (line_start p 0) (d_len source) (fst e0) (0%N, empty, fs) with
        | RDone (_, ds, fs') => (fs', Ok ds)
        | RStopped (_, _, fs') => (fs', Err EOther)
        | RCorrupt (_, _, fs') => (fs', Err ECorrupt)
        | RIo (_, _, fs') => (fs', Err EOther)
        | RPanic => (fs, Panic)
        end
  end.

(* repair::add_missing_data *)
Fixpoint push_all (d:data) (ls:list line) : M data :=
  match ls with
  | [] => ret d
  | x :: t => let* d' := push_data d (fst x) (snd x) in push_all d' t
  end.
Definition add_missing_data (source:data) (down:data) (B:N) (cb:cbmode) : M data :=
  let start_bound := match d_last down with Some ts => Excl ts | None => Unb end in
  match rough_new source start_bound Unb with
  | Err _ => ret down          (* EmptyFile, or (the fix) StartAfterData: nothing is missing; no other error can arise for (Excl ts | Unb, Unb) *)
  | Panic => mpanic
  | OutOfFuel => mfuel
  | Ok r =>
      let* ps := mcatch (refine r source) (fun _ => fail EOther) in
      match ps with
      | None => if negb (d_len down =? 0)%N then data_clear down else ret down
      | Some ps =>
          let* ls := mcatch (fwim_read_resampling (d_file source) (d_p source) cb B (p_start ps) (p_end ps) (p_full ps))
                            (fun _ => fail EOther) in
          mcatch (push_all down ls) (fun _ => fail EOther)
      end
  end.

(* DownSampledData::open; ENotFound only when the cache's data file does not exist *)
Definition ds_open (name:fname) (B:N) (p:nat) (source:data) (cb:cbmode) : M dsample :=
  let cname := cache_name name B in
  let* (f, _) := fwh_open (cname ++ ext_data) in
  let* d := mcatch (data_open cname f p cb) (fun _ => fail EOther) in
  let* d' := add_missing_data source d B cb in
  ret {| ds_data := d'; ds_B := B; ds_in_bin := 0; ds_sum := 0; ds_state := rs_zero p |}.

(* DownSampledData::open_or_create *)
Definition ds_open_or_create (name:fname) (B:N) (p:nat) (source:data) (cb:cbmode) : M dsample :=
  mcatch (ds_open name B p source cb)
         (fun e => match e with
                   | ENotFound => ds_create name B p source cb
                   | _ => fail EOther
                   end).

(* DownSampled::estimate_lines *)
Definition ds_estimate (ds:dsample) (lo hi:bound) : res (option (N * N)) :=
  match rough_new (ds_data ds) lo hi with
  | Ok r => do e <- estimate_lines r (d_p (ds_data ds)) (d_len (ds_data ds)); Ok (Some e)
  | Err _ => Ok None
  | Panic => Panic
  | OutOfFuel => OutOfFuel
  end.

(* ---- ByteSeries ---- *)
Record series := {
  s_data : data; s_down : list dsample; s_cb : cbmode;
  s_range : option (N * N) }.                     (* TimeRange *)

(* the loop of new_with_resamplers over the cache levels. After the fix a create that fails half way leaves nothing
   behind: the files of the levels made so far are removed again (here: each level removes its own two files when a
   later level fails; the Rust removes them in one loop - the resulting directory is the same) *)
Definition remove_pair (base:fname) : M unit :=
  exec remove_file (base ++ ext_data) in remove_file (base ++ ext_index).
Fixpoint create_caches (name:fname) (p:nat) (source:data) (cb:cbmode) (Bs:list N) : M (list dsample) :=
  match Bs with
  | [] => ret []
  | B :: t => let* ds := ds_create name B p source cb in
              let* rest := mcatch (create_caches name p source cb t)
                                  (fun e => exec remove_pair (cache_name name B) in fail e) in
              ret (ds :: rest)
  end.
Fixpoint open_caches (name:fname) (p:nat) (source:data) (cb:cbmode) (Bs:list N) : M (list dsample) :=
  match Bs with
  | [] => ret []
  | B :: t => let* ds := ds_open_or_create name B p source cb in
              let* rest := open_caches name p source cb t in ret (ds :: rest)
  end.

(* ByteSeries::new_with_resamplers *)
Definition series_new (name:fname) (p:N) (user_header:list byte) (caches:list N) (cb:cbmode) : M series :=
  let header := params_to_text BSgen.Consts.version p ++ user_header in
  let pn := N.to_nat p in
  let* d := data_new name pn header in
  let* down := mcatch (create_caches name pn d cb caches)
                      (fun e => exec remove_pair name in fail e) in     (* the fix: the series' own files go as well *)
  ret {| s_data := d; s_down := down; s_cb := cb; s_range := None |}.

(* ByteSeries::open_existing_with_resampler; returns the series and the user header in the file *)
Definition series_open (name:fname) (popt:option N) (caches:list N) (cb:cbmode) : M (series * list byte) :=
  let* (f, header) := fwh_open (name ++ ext_data) in
  let* (psize, user_header) := lift (check_and_split header popt) in
  let pn := N.to_nat psize in
  let* d := mcatch (data_open name f pn cb) (fun _ => fail EOther) in
  let* rng := lift (data_range d) in               (* TimeRange::from_data *)
  let* down := mcatch (open_caches name pn d cb caches) (fun _ => fail EOther) in
  ret ({| s_data := d; s_down := down; s_cb := cb; s_range := rng |}, user_header).

(* builder open(): create_new=false path incl. the header comparison *)
Definition builder_open (name:fname) (popt:option N) (hdr:hdropt) (caches:list N) (cb:cbmode) : M (series * list byte) :=
  let* (s, in_file) := series_open name popt caches cb in
  match hdr with
  | HdrIs expected => if bytes_eqb in_file expected then ret (s, expected) else fail EMismatch
  | HdrAny => ret (s, in_file)
  end.

Fixpoint process_all (down:list dsample) (ts:N) (line:list byte) : M (list dsample) :=
  match down with
  | [] => ret []
  | ds :: t => let* ds' := mcatch (ds_process ds ts line) (fun _ => fail EOther) in
               let* rest := process_all t ts line in ret (ds' :: rest)
  end.

(* ByteSeries::push_line. On an error after the range was updated the handle keeps the new
   range (as in the Rust); World then drops nothing - see World.v *)
Definition push_line (s:series) (ts:N) (line:list byte) : M series :=
  if negb (len line =? N.of_nat (d_p (s_data s)))%N then fail EWrongLen else
  match (match s_range s with
         | Some (a, b) => if (ts <=? b)%N then None else Some (a, ts)
         | None => Some (ts, ts)
         end) with
  | None => fail ENotAfterLast
  | Some rng =>
      let* d := mcatch (push_data (s_data s) ts line) (fun _ => fail EOther) in
      let* down := process_all (s_down s) ts line in
      ret {| s_data := d; s_down := down; s_cb := s_cb s; s_range := Some rng |}
  end.

(* RoughPos::new + refine with the error classes of read_all / read_first_n / read_n *)
Definition seek_pos (d:data) (lo hi:bound) : M (option pos) :=
  match rough_new d lo hi with
  | Ok r => mcatch (refine r d) (fun _ => fail ERange)
  | Err _ => fail ERange
  | Panic => mpanic
  | OutOfFuel => mfuel
  end.

(* ByteSeries::read_all *)
Definition read_all (s:series) (lo hi:bound) : M (list line) :=
  let d := s_data s in
  let* ps := seek_pos d lo hi in
  match ps with
  | None => ret []
  | Some ps => fwim_read (d_file d) (d_p d) (s_cb s) (p_start ps) (p_end ps) (p_full ps)
  end.

(* ByteSeries::read_first_n (after the fix: n = 0 returns nothing) *)
Definition read_first_n (s:series) (n:N) (lo hi:bound) : M (list line) :=
  if (n =? 0)%N then ret [] else
  let d := s_data s in
  let* ps := seek_pos d lo hi in
  match ps with
  | None => ret []
  | Some ps => fwim_read_first_n (d_file d) (d_p d) (s_cb s) n (p_start ps) (p_end ps) (p_full ps)
  end.

(* ByteSeries::n_lines_between *)
Definition n_lines_between (s:series) (lo hi:bound) : M N :=
  let d := s_data s in
  match rough_new d lo hi with
  | Ok r => let* ps := mcatch (refine r d) (fun _ => fail ERange) in
            match ps with
            | None => ret 0%N
            | Some ps => lift (pos_lines ps (d_p d))
            end
  | Err _ => if is_empty_file d then ret 0%N else fail ERange
  | Panic => mpanic
  | OutOfFuel => mfuel
  end.

(* the level loop of read_n *)
Fixpoint pick_level (cur:data) (down:list dsample) (n:N) (lo hi:bound) : res data :=
  match down with
  | [] => Ok cur
  | ds :: t =>
      do e <- ds_estimate ds lo hi;
      match e with
      | None => Ok cur
      | Some (mx, mn) => if (mx <? n)%N then Ok cur else if (mn <? n)%N then Ok cur
                         else pick_level (ds_data ds) t n lo hi
      end
  end.
Fixpoint sorted_desc (l:list N) : bool :=
  match l with
  | a :: ((b :: _) as t) => (b <=? a)%N && sorted_desc t
  | _ => true
  end.

(* windows(2).all(|w| w[0].data().len() >= w[1].data().len()): Data::len is evaluated pair by pair, stops at the first
   pair out of order; its subtraction can underflow (Panic) *)
Fixpoint sorted_lens (l:list dsample) : res bool :=
  match l with
  | a :: ((b :: _) as t) =>
      do la <- data_len_lines (ds_data a);
      do lb <- data_len_lines (ds_data b);
      if (lb <=? la)%N then sorted_lens t else Ok false
  | _ => Ok true
  end.
(* ByteSeries::read_n (after the fix: n = 0 returns nothing) *)
Definition read_n (s:series) (n:N) (lo hi:bound) : M (list line) :=
  (* assert!(windows(2).all(|w| w[0].data().len() >= w[1].data().len())) - line counts after the fix; Data::len can
     itself underflow (Panic) *)
  match sorted_lens (s_down s) with
  | Ok true =>
  if (n =? 0)%N then ret [] else
  let* d := lift (pick_level (s_data s) (s_down s) n lo hi) in
  let* ps := seek_pos d lo hi in
  match ps with
  | None => ret []
  | Some ps =>
      let* lines := lift (pos_lines ps (d_p d)) in
      let bucket := N.max 1 (lines / n) in
      fwim_read_resampling (d_file d) (d_p d) (s_cb s) bucket (p_start ps) (p_end ps) (p_full ps)
  end
  | _ => mpanic
  end.

(* ByteSeries::last_line *)
Definition series_last_line (s:series) : M line :=
  let d := s_data s in last_line_of (d_index d) (d_len d) (d_p d) (d_file d) (s_cb s).
