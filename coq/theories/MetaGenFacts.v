(* Tie 1 for the section layouts: gen/MetaLayout.v is produced on every run by tools/translate_meta.py from the text of
   meta::write and meta::read in /repo/src/series/data/inline_meta/meta.rs. The lemmas below - re-checked by the kernel against
   whatever the translator produced this time - say that the translated arms are the hand-written layouts of Layer I
   (Meta.v), which MetaFacts proves equal to the documented layouts of Layer F. An edit of a layout in the source (a byte
   index, a slice bound, a consumed_lines count, the number of lines an arm reports) changes the generated definitions and
   breaks one of these obligations. Nothing in the model depends on this file, so the model still runs when it breaks. *)
From Coq Require Import List NArith ZArith Lia Bool Arith ZifyBool ZifyN ZifyNat.
From Coq Require Import Strings.Byte.
Require Import BS.Bytes BS.Common BS.CommonFacts BS.Api BS.Layout BS.Format BS.FormatFacts BS.Meta BS.MetaFacts.
Require BSgen.Consts BSgen.MetaLayout.
Import ListNotations.
Close Scope N_scope. Open Scope nat_scope.

(* meta::write as translated = meta::write as modelled, on the 8 bytes of any timestamp *)
Theorem gen_write_is_model p (t:list byte) : length t = 8 -> BSgen.MetaLayout.gen_write p t = meta_write p t.
Proof.
  intros Lt.
  destruct t as [|t0 [|t1 [|t2 [|t3 [|t4 [|t5 [|t6 [|t7 [|? ?]]]]]]]]]; try discriminate.
  destruct p as [|[|[|[|q]]]]; try reflexivity.
  unfold BSgen.MetaLayout.gen_write, meta_write, pre0, pre1.
  replace (S (S (S (S q))) - 4) with q by lia. reflexivity.
Qed.

(* the number of lines each arm of meta::write reports = lines_per_metainfo = the documented K *)
Theorem gen_write_lines_is_K p : BSgen.MetaLayout.gen_write_lines p = Layout.K p.
Proof. destruct p as [|[|[|[|q]]]]; reflexivity. Qed.

(* meta::read as translated = meta::read as modelled, on lines of the right size *)
Theorem gen_read_is_model p a b got :
  length a = p + 2 -> length b = p + 2 -> Forall (fun s => length s = p + 2) got -> length got = Meta.ncont p ->
  BSgen.MetaLayout.gen_read_bytes p a b got = meta_read_bytes p a b got.
Proof.
  intros La Lb Lg Ng.
  destruct p as [|[|[|[|n]]]]; cbn [Meta.ncont] in Ng.
  - destruct got as [|g0 [|g1 [|g2 [|g3 [|? ?]]]]]; try discriminate.
    inversion Lg as [|? ? L0 Lg1]; subst. inversion Lg1 as [|? ? L1 Lg2]; subst.
    inversion Lg2 as [|? ? L2 Lg3]; subst. inversion Lg3 as [|? ? L3 _]; subst.
    destruct g0 as [|x0 [|x1 [|? ?]]]; try discriminate. destruct g1 as [|y0 [|y1 [|? ?]]]; try discriminate.
    destruct g2 as [|z0 [|z1 [|? ?]]]; try discriminate. destruct g3 as [|w0 [|w1 [|? ?]]]; try discriminate.
    reflexivity.
  - destruct got as [|g0 [|g1 [|? ?]]]; try discriminate.
    inversion Lg as [|? ? L0 Lg1]; subst. inversion Lg1 as [|? ? L1 _]; subst.
    destruct a as [|a0 [|a1 [|a2 [|? ?]]]]; try discriminate. destruct b as [|c0 [|c1 [|c2 [|? ?]]]]; try discriminate.
    destruct g0 as [|x0 [|x1 [|x2 [|? ?]]]]; try discriminate. destruct g1 as [|y0 [|y1 [|y2 [|? ?]]]]; try discriminate.
    reflexivity.
  - destruct got as [|g0 [|? ?]]; try discriminate.
    inversion Lg as [|? ? L0 _]; subst.
    destruct a as [|a0 [|a1 [|a2 [|a3 [|? ?]]]]]; try discriminate. destruct b as [|c0 [|c1 [|c2 [|c3 [|? ?]]]]]; try discriminate.
    destruct g0 as [|x0 [|x1 [|x2 [|x3 [|? ?]]]]]; try discriminate.
    reflexivity.
  - destruct got as [|g0 [|? ?]]; try discriminate.
    inversion Lg as [|? ? L0 _]; subst.
    destruct a as [|a0 [|a1 [|a2 [|a3 [|a4 [|? ?]]]]]]; try discriminate. destruct b as [|c0 [|c1 [|c2 [|c3 [|c4 [|? ?]]]]]]; try discriminate.
    destruct g0 as [|x0 [|x1 [|x2 [|x3 [|x4 [|? ?]]]]]]; try discriminate.
    reflexivity.
  - destruct got; [|discriminate].
    destruct a as [|a0 [|a1 [|a2 [|a3 [|a4 [|a5 ra]]]]]]; try (cbn in La; lia).
    destruct b as [|c0 [|c1 [|c2 [|c3 [|c4 [|c5 rb]]]]]]; try (cbn in Lb; lia).
    reflexivity.
Qed.

(* the OutOfLines exits report, in order, 0, 1, .. continuation lines consumed: the reader and the index scan then carry the two
   marker lines plus that many lines into the next buffer - what Reader.line_step / Index.meta_scan do with `got` *)
Theorem gen_consumed_is_model p : BSgen.MetaLayout.gen_consumed p = seq 0 (Meta.ncont p).
Proof. destruct p as [|[|[|[|q]]]]; reflexivity. Qed.

(* composed with MetaFacts: what the source writes is the documented section, what it reads back is the documented timestamp *)
Corollary source_write_is_documented p t : BSgen.MetaLayout.gen_write p (le_enc 8 t) = enc_section p t.
Proof. rewrite gen_write_is_model; [apply meta_write_is_section|]. destruct (le_enc8 t) as (b0&b1&b2&b3&b4&b5&b6&b7&E). rewrite E. reflexivity. Qed.
Corollary source_read_is_documented p a b got :
  length a = p + 2 -> length b = p + 2 -> Forall (fun s => length s = p + 2) got -> length got = Meta.ncont p ->
  le_dec (BSgen.MetaLayout.gen_read_bytes p a b got) = Layout.read_ts p a b got.
Proof.
  intros La Lb Lg Ng. rewrite gen_read_is_model by assumption.
  exact (meta_read_is_read_ts p a b got La Lb Lg Ng).
Qed.
