(* C07, the backward direction for reference-encoded files: a data file that an independent writer laid out as documented -
   outer header, preamble text, user header, then the reference encoding (Format.encode) of any well-formed list of lines -
   with no index file at all (an independent writer knows nothing of the sidecar) or any prefix of the right one, is opened
   by the library and read back with exactly that content; the data file is not touched. Every payload size (0..3 under
   the marker-word condition nm_sec of C04), every list, every header. *)
From Coq Require Import List NArith ZArith Lia Bool Arith ZifyBool ZifyN ZifyNat Sorted.
From Coq Require Import Strings.Byte.
Require Import BS.Bytes BS.Common BS.CommonFacts BS.Api BS.Layout BS.Format BS.FormatFacts BS.Spec BS.SpecStep BS.Sections.
Require Import BS.FS BS.FSFacts BS.Meta BS.MetaFacts BS.Header BS.Reader BS.ReaderFacts BS.Index BS.Data BS.DataFacts BS.Seek BS.SeekFacts BS.Series.
Require Import BS.SeriesFacts BS.RangeFacts BS.RangeRead BS.ReadAllFacts BS.ExtractFacts BS.LastMetaFacts BS.HeaderFacts BS.OpenFacts BS.TornFacts BS.TornGenFacts BS.PagingFacts BS.World.
Import ListNotations.
Close Scope N_scope. Open Scope nat_scope.

Section Conform.
Variable p : nat.

Lemma encode_firstn_le (l:list line) k : length (encode p (firstn k l)) <= length (encode p l).
Proof. rewrite (encode_split p l k), app_length. lia. Qed.

Theorem reference_file_read_back fs name uhdr popt hdropt cb l :
  let header := params_to_text BSgen.Consts.version (N.of_nat p) ++ uhdr in
  wf_series p l -> Forall (nm_sec p) (secs_of l) ->
  (len header <= 65535)%N -> (len (encode p l) < 2^64)%N -> (N.of_nat p < 2^64)%N ->
  fs_get fs (name ++ ext_data) = Some (outer header ++ encode p l) ->
  index_state fs name (sections p (encode p l)) ->
  (popt = None \/ popt = Some (N.of_nat p)) ->
  match hdropt with HdrIs e => e = uhdr | HdrAny => True end ->
  exists fs' s, builder_open name popt hdropt [] cb fs = (fs', Ok (s, uhdr))
    /\ RepH fs' s p (outer header) (outer []) l
    /\ fs_get fs' (name ++ ext_data) = fs_get fs (name ++ ext_data)
    /\ (read_all s Unb Unb fs' = (fs', Ok l) \/ (l = [] /\ read_all s Unb Unb fs' = (fs', Err ERange))).
Proof.
  intros header W NM Hh H64 Hp GD IS Hopt HO.
  assert (GD' : fs_get fs (name ++ ext_data) = Some (outer header ++ firstn (length (encode p l)) (encode p l))) by (rewrite firstn_all; exact GD).
  destruct (torn_open_gen_names p fs name uhdr popt hdropt cb l (length (encode p l)) W NM (le_n _) Hh H64 Hp GD' IS Hopt HO)
    as (fs' & s & k & E & Hk & LE & MX & R & CB & OT & N1 & N2).
  assert (K : k = length l).
  { destruct (Nat.eq_dec k (length l)) as [Q|Q]; [exact Q|]. exfalso.
    assert (Hlt : k < length l) by lia. specialize (MX Hlt). pose proof (encode_firstn_le l (S k)). lia. }
  subst k. rewrite firstn_all in R.
  exists fs', s. split; [exact E|]. split; [exact R|]. split.
  - pose proof (rd_file _ _ _ _ _ _ _ _ (rh_data _ _ _ _ _ _ R)) as [G _]. rewrite N1 in G. rewrite G, GD. reflexivity.
  - destruct (read_all_ok fs' s p _ _ l R Unb Unb) as [RA|[SE RA]]; rewrite select_unb in *; [left; exact RA|right; split; assumption].
Qed.
End Conform.

(* ---- the known finding D18 as a witness: a file laid out as documented whose full timestamps were stored EARLIER than the
   line that follows them (first delta of a section other than 0). The reference decoder reads it as four lines; the model of
   the library (as the library itself) opens it, returns the right content for a full read, but reports the first full
   timestamp as the start of the time range and returns lines beyond an end bound that lies before the first line of its
   section. The same script is corpus/C07/d18_early_full_time.bs, replayed on the implementation on every run. ---- *)
Definition d18_region : list byte :=
  enc_section 1 10 ++ enc_line 5 [xaa] ++ enc_line 6 [xbb] ++ enc_section 1 100000 ++ enc_line 7 [xcc] ++ enc_line 9 [xdd].
Definition d18_ops : list op :=
  [ONew ["w"]%byte 1 [] [] CbNone; OClose; OFsAppend (["w"]%byte ++ ext_data) d18_region;
   OOpen ["w"]%byte None HdrAny [] CbNone; OReadAll Unb Unb; ORange; OReadAll Unb (Incl 100003); ONLines Unb (Incl 100003)].
Lemma d18_refuted :
  decode 1 d18_region = Some [(15%N, [xaa]); (16%N, [xbb]); (100007%N, [xcc]); (100009%N, [xdd])]
  /\ skipn 3 (snd (World.run World.init_world d18_ops))
     = [ROpened 1 []; RLines [(15%N, [xaa]); (16%N, [xbb]); (100007%N, [xcc]); (100009%N, [xdd])];
        RRange (Some (10%N, 100009%N));
        RLines [(15%N, [xaa]); (16%N, [xbb]); (100007%N, [xcc]); (100009%N, [xdd])];
        RNum 8].
Proof. split; vm_compute; reflexivity. Qed.
