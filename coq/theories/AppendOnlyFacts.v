(* C16 with cache levels: an accepted append only adds bytes at the end of every file of the series - the data and
   index files of the source and of every cache level - and touches no other file. *)
From Coq Require Import List NArith ZArith Lia Bool Arith ZifyBool ZifyN ZifyNat Sorted.
From Coq Require Import Strings.Byte.
Require Import BS.Bytes BS.Common BS.CommonFacts BS.Api BS.Layout BS.Format BS.FormatFacts BS.Spec BS.SpecStep BS.Sections.
Require Import BS.FS BS.FSFacts BS.Meta BS.MetaFacts BS.Header BS.Reader BS.Index BS.Data BS.DataFacts BS.Seek BS.Series.
Require Import BS.SampleFacts BS.SeriesFacts BS.CacheFacts BS.TornFacts.
Import ListNotations.
Close Scope N_scope. Open Scope nat_scope.

Section AppendOnly.
Variable p : nat.

(* the file g has its old content as a byte prefix *)
Definition grows (fs fs':fsys) (g:fname) : Prop :=
  exists c t, fs_get fs g = Some c /\ fs_get fs' g = Some (c ++ t).

Lemma wf_app_l (a b:list line) : wf_series p (a ++ b) -> wf_series p a.
Proof.
  intros [SS F]. split; [rewrite map_app in SS; apply sorted_app_inv in SS; apply SS|apply Forall_app in F; apply F].
Qed.

Lemma encode_grows (a b:list line) : exists X, encode p (a ++ b) = encode p a ++ X.
Proof. unfold encode. rewrite encode_from_app. eauto. Qed.

Lemma index_grows (a b:list line) : wf_series p (a ++ b) ->
  exists Y, enc_index (sections p (encode p (a ++ b))) = enc_index (sections p (encode p a)) ++ Y.
Proof.
  intros W. rewrite (sections_encode p _ W), (sections_encode p a (wf_app_l a b W)).
  rewrite (secs_from_app p a b None 0). rewrite enc_index_app. eauto.
Qed.

(* the cache of a longer list extends the cache of a shorter one *)
Lemma cache_of_grows B (l t:list line) : B > 0 -> exists Z, cache_of p B (l ++ t) = cache_of p B l ++ Z.
Proof.
  intros Hb. set (k := length l / B).
  assert (DM := Nat.div_mod (length l) B ltac:(lia)). assert (MU := Nat.mod_upper_bound (length l) B ltac:(lia)). fold k in DM.
  set (done := firstn (k * B) l). set (pend := skipn (k * B) l).
  assert (El : l = done ++ pend) by (symmetry; apply firstn_skipn).
  assert (Ld : length done = k * B) by (unfold done; rewrite firstn_length; nia).
  assert (Lp : length pend < B) by (unfold pend; rewrite skipn_length; nia).
  unfold cache_of.
  replace (l ++ t) with (done ++ (pend ++ t)) by (rewrite app_assoc, <- El; reflexivity).
  replace (buckets B l) with (buckets B (done ++ pend)) by (rewrite <- El; reflexivity).
  rewrite (buckets_app B Hb k done (pend ++ t) Ld), (buckets_app B Hb k done pend Ld), (buckets_short B pend Lp).
  rewrite app_nil_r, map_app. eauto.
Qed.

Lemma file_grows fs fs' o o' hdr r r' : file_is fs o hdr r -> file_is fs' o' hdr r' -> of_name o' = of_name o ->
  (exists X, r' = r ++ X) -> grows fs fs' (of_name o).
Proof.
  intros [G _] [G' _] EN [X E]. exists (hdr ++ r), X. split; [exact G|]. rewrite <- EN, G', E, app_assoc. reflexivity.
Qed.

Theorem append_grows_all fs fs' s s' hdr ihdr l cs x :
  RepS fs s p hdr ihdr l cs -> RepS fs' s' p hdr ihdr (l ++ [x]) cs ->
  of_name (d_file (s_data s')) = of_name (d_file (s_data s)) ->
  of_name (ix_file (d_index (s_data s'))) = of_name (ix_file (d_index (s_data s))) ->
  map cache_files (s_down s') = map cache_files (s_down s) ->
  Forall (grows fs fs') (all_files s).
Proof.
  intros R R' N1 N2 NC. unfold all_files. apply Forall_app. split.
  - pose proof (rs_data _ _ _ _ _ _ _ R) as RD. pose proof (rs_data _ _ _ _ _ _ _ R') as RD'.
    constructor; [|constructor; [|constructor]].
    + apply (file_grows fs fs' _ _ hdr _ _ (rd_file _ _ _ _ _ _ _ _ RD) (rd_file _ _ _ _ _ _ _ _ RD') N1). apply encode_grows.
    + apply (file_grows fs fs' _ _ ihdr _ _ (rd_ix _ _ _ _ _ _ _ _ RD) (rd_ix _ _ _ _ _ _ _ _ RD') N2).
      apply index_grows. exact (rs_wf _ _ _ _ _ _ _ R').
  - pose proof (RepS_cache_files _ _ _ _ _ _ _ R) as CF. pose proof (RepS_cache_files _ _ _ _ _ _ _ R') as CF'.
    pose proof (rs_caches _ _ _ _ _ _ _ R') as RC'.
    revert NC CF CF' RC'. generalize (s_down s') as down'. generalize cs as cs0. induction (s_down s) as [|ds t IH]; intros cs0 down' NC CF CF' RC'.
    + constructor.
    + destruct down' as [|ds' t']; [discriminate|]. cbn [map] in NC. unfold cache_files at 1 2 in NC. injection NC as E1 E2 NT.
      inversion CF as [|? c ? ct [F1 F2] CFt]; subst. inversion CF' as [|? ? ? ? [F1' F2'] CFt']; subst.
      inversion RC' as [|? ? ? ? [Hb CO'] RCt']; subst.
      cbn [flat_map]. apply Forall_app. split; [|apply (IH ct t' NT CFt CFt' RCt')].
      destruct (cache_of_grows (fst c) l [x] Hb) as [Z EZ].
      assert (Wc : wf_series p (cache_of p (fst c) l ++ Z)).
      { rewrite <- EZ. destruct CO' as (k & done & pend & El & Ld & RCC & _).
        assert (E : cache_of p (fst c) (l ++ [x]) = cache_of p (fst c) done).
        { unfold cache_of. rewrite El, (buckets_app (fst c) Hb k done pend Ld), (buckets_short (fst c) pend) by (apply (rc_len _ _ _ _ _ _ _ _ RCC)).
          rewrite app_nil_r. reflexivity. }
        rewrite E. exact (rc_wf _ _ _ _ _ _ _ _ RCC). }
      constructor; [|constructor; [|constructor]].
      * apply (file_grows fs fs' _ _ _ _ _ F1 F1' E1). rewrite EZ. apply encode_grows.
      * apply (file_grows fs fs' _ _ _ _ _ F2 F2' E2). rewrite EZ. apply index_grows. exact Wc.
Qed.

(* C16: ByteSeries::push_line with cache levels *)
Theorem push_line_append_only fs s hdr ihdr l cs ts pay :
  RepS fs s p hdr ihdr l cs -> accepts p l ts pay = true ->
  exists fs' s', push_line s ts pay fs = (fs', Ok s')
    /\ Forall (grows fs fs') (all_files s)
    /\ (forall g, ~ In g (all_files s) -> fs_get fs' g = fs_get fs g).
Proof.
  intros R A. destruct (push_line_caches fs s p hdr ihdr l cs ts pay R A) as (fs' & s' & E & R' & Oth & _ & _ & N1 & N2 & NC).
  exists fs', s'. split; [exact E|]. split; [|exact Oth].
  apply (append_grows_all fs fs' s s' hdr ihdr l cs (ts, pay) R R' N1 N2 NC).
Qed.
End AppendOnly.
