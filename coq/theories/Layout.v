From Coq Require Import List NArith ZArith Lia Bool Arith ZifyBool ZifyN ZifyNat.
From Coq Require Import Strings.Byte.
Require Import BS.Bytes BS.Scan.
Import ListNotations.
Close Scope N_scope.
Open Scope nat_scope.
Arguments N.add : simpl never. Arguments N.mul : simpl never.
Arguments N.div : simpl never. Arguments N.modulo : simpl never.
Arguments N.sub : simpl never. Arguments N.ltb : simpl never. Arguments N.leb : simpl never.
Ltac Zify.zify_post_hook ::= Z.div_mod_to_equations.

Notation slot := (list byte) (only parsing).
Notation line := (N * list byte)%type (only parsing).

Section Fmt.
Variable p : nat.                       (* payload size *)
Definition L := p + 2.
Definition q := Nat.min p 4.            (* timestamp bytes carried by each marker slot *)
Definition zeros (n:nat) : list byte := repeat x00 n.

(* continuation slots needed for the 8 - 2q remaining bytes *)
Definition ncont : nat := match p with 0 => 4 | 1 => 2 | 2 => 1 | 3 => 1 | _ => 0 end.
Definition K := 2 + ncont.

Fixpoint take_slots (n:nat) (x:list byte) : list slot :=
  match n with O => [] | S n' => firstn L x :: take_slots n' (skipn L x) end.
Definition chunk_pad (n:nat) (l:list byte) : list slot :=   (* n slots of L bytes, zero padded *)
  take_slots n (l ++ zeros (n * L)).

Definition sec_a (t:N) : slot := [xff;xff] ++ firstn q (le_enc 8 t) ++ zeros (p - q).
Definition sec_b (t:N) : slot := [xff;xff] ++ firstn q (skipn q (le_enc 8 t)) ++ zeros (p - q).
Definition sec_got (t:N) : list slot := chunk_pad ncont (skipn (q+q) (le_enc 8 t)).
Definition sec_slots (t:N) : list slot := sec_a t :: sec_b t :: sec_got t.

Definition is_marker (s:slot) : bool :=
  match s with b0 :: b1 :: _ => Byte.eqb b0 xff && Byte.eqb b1 xff | _ => false end.

Definition read_ts (a b:slot) (got:list slot) : N :=
  le_dec (firstn 8 (firstn q (skipn 2 a) ++ firstn q (skipn 2 b) ++ concat got)).

Definition mk (full:N) (s:slot) : line := (full + le_dec (firstn 2 s), skipn 2 s)%N.

Definition line_slot (d:N) (pay:list byte) : slot := le_enc 2 d ++ pay.

(* ---- facts about one section ---- *)
Lemma le_enc8_len t : length (le_enc 8 t) = 8. Proof. apply le_enc_length. Qed.

Lemma take_slots_length n : forall x, length (take_slots n x) = n.
Proof. induction n; intros; cbn [take_slots length]; auto. Qed.

Lemma sec_slots_shape t :
  is_marker (sec_a t) = true /\ is_marker (sec_b t) = true /\ length (sec_got t) = ncont.
Proof. repeat split. unfold sec_got, chunk_pad. apply take_slots_length. Qed.

Lemma firstn_add {A} (a b:nat) (x:list A) : firstn (a+b) x = firstn a x ++ firstn b (skipn a x).
Proof.
  revert x; induction a as [|a IH]; intros x; cbn [Nat.add firstn skipn app]; [reflexivity|].
  destruct x as [|y x]; [rewrite firstn_nil; reflexivity|]. cbn [firstn skipn app]. rewrite IH. reflexivity.
Qed.

Lemma concat_take_slots : forall n x, concat (take_slots n x) = firstn (n * L) x.
Proof.
  induction n as [|n IH]; intros x; cbn [take_slots concat Nat.mul]; [reflexivity|].
  rewrite IH, firstn_add. reflexivity.
Qed.

Lemma concat_chunk_pad : forall n l, length l <= n * L ->
  firstn (length l) (concat (chunk_pad n l)) = l.
Proof.
  intros n l Hl. unfold chunk_pad. rewrite concat_take_slots, firstn_firstn.
  replace (Nat.min (length l) (n * L)) with (length l) by lia.
  rewrite firstn_app. replace (length l - length l) with 0 by lia. cbn [firstn].
  rewrite app_nil_r. apply firstn_all.
Qed.

Lemma ncont_enough : 8 - (q + q) <= ncont * L.
Proof. unfold ncont, q, L. destruct p as [|[|[|[|n]]]]; cbn -[Nat.min Nat.mul Nat.sub]; lia. Qed.

Lemma read_ts_sec t : (t < 2^64)%N -> read_ts (sec_a t) (sec_b t) (sec_got t) = t.
Proof.
  intros Ht. unfold read_ts, sec_a, sec_b, sec_got.
  assert (Hl : length (le_enc 8 t) = 8) by apply le_enc8_len.
  remember (le_enc 8 t) as tb eqn:Etb.
  assert (Hq : q <= 4) by (unfold q; lia).
  assert (S2 : forall (x y:byte) r, skipn 2 ([x;y] ++ r) = r) by reflexivity.
  rewrite !S2.
  assert (A : firstn q (firstn q tb ++ zeros (p - q)) = firstn q tb).
  { rewrite firstn_app, firstn_firstn, firstn_length. replace (Nat.min q q) with q by lia.
    replace (q - Nat.min q (length tb)) with 0 by lia. cbn [firstn]. apply app_nil_r. }
  assert (B : firstn q (firstn q (skipn q tb) ++ zeros (p - q)) = firstn q (skipn q tb)).
  { rewrite firstn_app, firstn_firstn, firstn_length, skipn_length. replace (Nat.min q q) with q by lia.
    replace (q - Nat.min q (length tb - q)) with 0 by lia. cbn [firstn]. apply app_nil_r. }
  rewrite A, B.
  rewrite app_assoc, <- firstn_add.
  set (r := skipn (q+q) tb) in *.
  assert (Hr : length r = 8 - (q+q)) by (unfold r; rewrite skipn_length; lia).
  pose proof (concat_chunk_pad ncont r) as D. rewrite Hr in D.
  pose proof ncont_enough as NE. specialize (D ltac:(lia)).
  assert (F : firstn 8 (firstn (q+q) tb ++ concat (chunk_pad ncont r)) = tb).
  { replace 8 with ((q+q) + (8 - (q+q))) at 1 by lia.
    rewrite firstn_app, firstn_length. replace (Nat.min (q+q) (length tb)) with (q+q) by lia.
    replace (q + q + (8 - (q + q)) - (q + q)) with (8 - (q+q)) by lia.
    rewrite D. rewrite firstn_firstn. replace (Nat.min (q+q+(8-(q+q))) (q+q)) with (q+q) by lia.
    unfold r. apply firstn_skipn. }
  rewrite F. subst tb. apply le_dec_enc. cbn. exact Ht.
Qed.

Lemma line_slot_not_marker d pay : (d <= 65534)%N -> is_marker (line_slot d pay) = false.
Proof.
  intros Hd. unfold line_slot. cbn [le_enc app is_marker].
  destruct (Byte.eqb (byte_of_N d) xff) eqn:E0; [|reflexivity].
  destruct (Byte.eqb (byte_of_N (d/256)) xff) eqn:E1; [|reflexivity].
  apply Byte.byte_dec_bl in E0, E1. exfalso.
  pose proof (to_N_byte_of_N d) as H0. pose proof (to_N_byte_of_N (d/256)) as H1.
  rewrite E0 in H0. rewrite E1 in H1. cbn in H0, H1. lia.
Qed.

Lemma mk_line_slot full d pay : (d < 65536)%N -> mk full (line_slot d pay) = ((full + d)%N, pay).
Proof.
  intros Hd. unfold mk, line_slot. cbn [le_enc app firstn skipn]. f_equal.
  change [byte_of_N d; byte_of_N (d/256)] with (le_enc 2 d). rewrite le_dec_enc; [reflexivity|cbn; lia].
Qed.

(* ---- layouts ---- *)
Record sect := { full : N; body : list (N * list byte) }.
Definition sect_slots (s:sect) : list slot :=
  sec_slots (full s) ++ map (fun x => line_slot (fst x) (snd x)) (body s).
Definition layout_slots (ss:list sect) : list slot := concat (map sect_slots ss).
Definition sect_lines (s:sect) : list line := map (fun x => ((full s + fst x)%N, snd x)) (body s).
Definition lines_of (ss:list sect) : list line := concat (map sect_lines ss).
Definition wf_sect (s:sect) : Prop :=
  (full s < 2^64)%N /\ Forall (fun x => (fst x <= 65534)%N) (body s).

Notation run := (Scan.run slot line is_marker ncont read_ts mk).
Notation Normal := (Scan.Normal slot).

Lemma run_body f : forall b, Forall (fun x => (fst x <= 65534)%N) b ->
  run (Normal f) (map (fun x => line_slot (fst x) (snd x)) b)
  = (Normal f, map (fun x => ((f + fst x)%N, snd x)) b).
Proof.
  induction b as [|x b IH]; intros H; cbn [map Scan.run]; [reflexivity|].
  inversion H as [|? ? Hx Hb]; subst. cbn [Scan.step].
  rewrite line_slot_not_marker by exact Hx. rewrite IH by exact Hb.
  rewrite mk_line_slot by lia. reflexivity.
Qed.

Lemma run_section f0 t : (t < 2^64)%N -> run (Normal f0) (sec_slots t) = (Normal t, []).
Proof.
  intros Ht. destruct (sec_slots_shape t) as (Ma & Mb & Lg).
  unfold sec_slots. set (a := sec_a t) in *. set (b := sec_b t) in *.
  pose proof (read_ts_sec t Ht) as RT. fold a b in RT.
  set (got := sec_got t) in *. clearbody a b got.
  change (run (Normal f0) (a :: b :: got)) with
   (let '(s1,o1) := Scan.step slot line is_marker ncont read_ts mk (Normal f0) a in
    let '(s2,o2) := run s1 (b :: got) in (s2, o1 ++ o2)).
  cbn [Scan.step]. rewrite Ma.
  change (run (Scan.One slot f0 a) (b :: got)) with
   (let '(s1,o1) := Scan.step slot line is_marker ncont read_ts mk (Scan.One slot f0 a) b in
    let '(s2,o2) := run s1 got in (s2, o1 ++ o2)).
  cbn [Scan.step]. rewrite Mb.
  destruct (Nat.eqb ncont 0) eqn:C0.
  - apply Nat.eqb_eq in C0. rewrite C0 in Lg. destruct got; [|discriminate].
    cbn [Scan.run app]. rewrite RT. reflexivity.
  - apply Nat.eqb_neq in C0.
    assert (G : forall g2 g1, length (g1 ++ g2) = ncont -> g2 <> [] ->
              run (Scan.Sec slot f0 a b g1) g2 = (Normal (read_ts a b (g1 ++ g2)), [])).
    { induction g2 as [|x g2 IHg]; intros g1 Hlen Hne; [congruence|].
      cbn [Scan.run Scan.step]. rewrite app_length in *. cbn [length] in *.
      destruct g2 as [|y g2']; cbn [length] in Hlen.
      - replace (Nat.eqb (length g1 + 1) ncont) with true by (symmetry; apply Nat.eqb_eq; lia).
        cbn [Scan.run]. reflexivity.
      - replace (Nat.eqb (length g1 + 1) ncont) with false
          by (symmetry; apply Nat.eqb_neq; lia).
        rewrite (IHg (g1 ++ [x])); [|rewrite <- app_assoc; cbn [app]; rewrite app_length; cbn [length]; lia|discriminate].
        rewrite <- app_assoc. reflexivity. }
    rewrite (G got []); [|cbn [app]; exact Lg|destruct got; cbn in *; [lia|discriminate]].
    cbn [app]. rewrite RT. reflexivity.
Qed.

Lemma last_nonempty_irrel {A} : forall (l:list A) d d', l <> [] -> last l d = last l d'.
Proof. induction l as [|x l IH]; intros d d' H; [congruence|]. cbn [last]. destruct l; [reflexivity|]. apply IH. discriminate. Qed.
Lemma last_cons {A} : forall (l:list A) a d, last (a :: l) d = last l a.
Proof. intros l a d. destruct l as [|x l]; [reflexivity|]. change (last (a :: x :: l) d) with (last (x :: l) d). apply last_nonempty_irrel. discriminate. Qed.

Theorem decode_layout : forall ss f0, Forall wf_sect ss ->
  run (Normal f0) (layout_slots ss)
  = (Normal (last (map full ss) f0), lines_of ss).
Proof.
  induction ss as [|s ss IH]; intros f0 H; [reflexivity|].
  inversion H as [|? ? [Hf Hb] Hss]; subst.
  unfold layout_slots, lines_of in *. cbn [map concat]. unfold sect_slots at 1.
  rewrite <- app_assoc, Scan.run_app.
  rewrite run_section by exact Hf. cbv beta iota.
  rewrite Scan.run_app, run_body by exact Hb. cbv beta iota.
  rewrite IH by exact Hss. cbn [app]. f_equal. f_equal.
  symmetry. apply last_cons.
Qed.
End Fmt.
