(* C11 / C19 with cache levels: the level loop of read_n never panics. RoughPos::new on a cache level never produces the
   (TillEnd, Window) pair of search areas that estimate_lines marks unreachable!() (ReadAllFacts.rough_new_areas), so the
   estimate of every level is Ok, pick_level returns a level, and read_n answers for every n and every pair of bounds. *)
From Coq Require Import List NArith ZArith Lia Bool Arith ZifyBool ZifyN ZifyNat Sorted.
From Coq Require Import Strings.Byte.
Require Import BS.Bytes BS.Common BS.CommonFacts BS.Api BS.Layout BS.Format BS.FormatFacts BS.Spec BS.SpecStep BS.Sections.
Require Import BS.FS BS.FSFacts BS.Meta BS.MetaFacts BS.Header BS.Reader BS.Index BS.Data BS.DataFacts BS.Seek BS.SeekFacts BS.Series.
Require Import BS.SampleFacts BS.SeriesFacts BS.ReadAllFacts BS.TotalFacts BS.CacheFacts.
Import ListNotations.
Close Scope N_scope. Open Scope nat_scope.

Section Levels.
Variable p : nat.

Lemma ds_estimate_total fs l ds c lo hi : cache_ok p fs l ds c -> exists e, ds_estimate ds lo hi = Ok e.
Proof.
  intros OK. destruct (cache_as_series p fs ds c l CbNone OK) as (chdr & cihdr & RH).
  pose proof (rough_new_areas fs _ p chdr cihdr _ RH lo hi) as A. cbn [as_series s_data] in A.
  unfold ds_estimate. destruct (rough_new (ds_data ds) lo hi) as [r|e| |]; try contradiction.
  - destruct (estimate_lines_total r (d_p (ds_data ds)) (d_len (ds_data ds)) A) as (mx & mn & E).
    rewrite E. cbn [bind]. eauto.
  - eauto.
Qed.

Lemma pick_level_total fs l n lo hi : forall down cs, Forall2 (cache_ok p fs l) down cs ->
  forall cur, exists d, pick_level cur down n lo hi = Ok d.
Proof.
  intros down cs F2. induction F2 as [|ds c t ct OK F2 IH]; intros cur; cbn [pick_level]; [eauto|].
  destruct (ds_estimate_total fs l ds c lo hi OK) as (e & E). rewrite E. cbn [bind].
  destruct e as [[mx mn]|]; [|eauto].
  destruct (mx <? n)%N; [eauto|]. destruct (mn <? n)%N; [eauto|]. apply IH.
Qed.

(* read_n through the cache levels, with no side condition left but the ascending bucket sizes of the configuration *)
Theorem read_n_levels_total fs s hdr ihdr l cs n lo hi :
  RepS fs s p hdr ihdr l cs -> StronglySorted le (map fst cs) -> (1 <= n)%N ->
  exists lev, In lev (levels p l cs)
    /\ ((exists b, b >= 1 /\ read_n s n lo hi fs = (fs, Ok (resample p b (select lo hi lev)))
                   /\ (len (resample p b (select lo hi lev)) <= 2 * n)%N)
        \/ (select lo hi lev = [] /\ read_n s n lo hi fs = (fs, Err ERange))).
Proof.
  intros R SS Hn. pose proof (rs_caches _ _ _ _ _ _ _ R) as F2.
  destruct (pick_level_total fs l n lo hi _ _ F2 (s_data s)) as (d & PL).
  exact (read_n_levels p fs s hdr ihdr l cs n lo hi d R Hn (sorted_lens_ok p fs l _ _ F2 SS) PL).
Qed.

Theorem read_n_returns_levels fs s hdr ihdr l cs n lo hi :
  RepS fs s p hdr ihdr l cs -> StronglySorted le (map fst cs) -> returns (read_n s n lo hi fs).
Proof.
  intros R SS. destruct (N.eq_dec n 0) as [->|Hn].
  - pose proof (rs_caches _ _ _ _ _ _ _ R) as F2. unfold read_n. rewrite (sorted_lens_ok p fs l _ _ F2 SS). cbn. exact I.
  - destruct (read_n_levels_total fs s hdr ihdr l cs n lo hi R SS ltac:(lia)) as (lev & _ & [(b & _ & E & _)|[_ E]]);
      rewrite E; exact I.
Qed.
End Levels.
