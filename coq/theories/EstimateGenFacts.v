(* Tie 1 for the line estimate: gen/EstimateGen.v is produced on every run by tools/translate_estimate.py from the text of
   RoughPos::estimate_lines in /repo/src/seek/estimate.rs (sixteen arms over the start and end search areas, built from
   saturating subtractions of byte offsets). The lemma below - re-checked against whatever the translator produced this time -
   says that the translated match is the match of the hand-written model (Seek.estimate_lines), about which LevelFacts proves
   that the level loop of read_n is total. A changed operand, a plain `-` instead of the saturating `sub`, or a missing arm
   changes the generated definition (or is rejected by the translator) and breaks this obligation. *)
From Coq Require Import List NArith.
Require Import BS.Common BS.Index BS.Data BS.Seek.
Require BSgen.EstimateGen.

Theorem gen_estimate_is_model r p dl :
  estimate_lines r p dl
  = match BSgen.EstimateGen.gen_estimate_bytes (start_area_ r) (end_area_ r) p dl with
    | Ok mm => Ok ((fst mm / line_size p)%N, (snd mm / line_size p)%N)
    | Err e => Err e
    | Panic => Panic
    | OutOfFuel => OutOfFuel
    end.
Proof. unfold estimate_lines, BSgen.EstimateGen.gen_estimate_bytes. destruct (start_area_ r), (end_area_ r); reflexivity. Qed.

(* the only arm that panics is the one the source marks unreachable!() *)
Theorem gen_estimate_total sa ea p dl :
  (match sa, ea with STillEnd _, EWindow _ _ => False | _, _ => True end) ->
  exists mx mn, BSgen.EstimateGen.gen_estimate_bytes sa ea p dl = Ok (mx, mn).
Proof. intros H. destruct sa, ea; try contradiction; cbn; eauto. Qed.
