(* C02 assembly, part 1: encodings of prefixes of a sectioned series, counting lines before a bound *)
From Coq Require Import List NArith ZArith Lia Bool Arith ZifyBool ZifyN ZifyNat Sorted.
From Coq Require Import Strings.Byte.
Require Import BS.Bytes BS.Common BS.CommonFacts BS.Api BS.Layout BS.Format BS.FormatFacts BS.Sections.
Require Import BS.FS BS.FSFacts BS.Meta BS.MetaFacts BS.Header BS.Reader BS.ReaderFacts BS.Index BS.Data BS.DataFacts BS.Seek BS.SeekFacts.
Import ListNotations.
Close Scope N_scope. Open Scope nat_scope.
Arguments N.add : simpl never. Arguments N.mul : simpl never. Arguments N.sub : simpl never.
Arguments N.ltb : simpl never. Arguments N.leb : simpl never. Arguments N.eqb : simpl never.

Section Good.
Variable p : nat.
Notation L := (p + 2).

Definition bodies (ss:list sect) : list line := concat (map snd ss).

(* the encoding of the lines of good sections is the concatenation of the encoded sections,
   whatever full timestamp came before, as long as the first section is out of its reach *)
Lemma encode_from_good : forall ss full0, good_secs p ss ->
  (match full0, ss with Some g, (f, _) :: _ => (g + MAXD < f)%N | _, _ => True end) ->
  encode_from p full0 (bodies ss) = concat (map (sec_bytes p) ss)
  /\ full_after p full0 (bodies ss) = match ss with [] => full0 | _ => Some (fst (last ss (0%N, []))) end.
Proof.
  induction ss as [|[f ls] t IH]; intros full0 G Hr; [split; reflexivity|].
  cbn [good_secs] in G. destruct G as (((pay & r & Els) & F & S) & Nx & Gt). cbn [fst snd] in *.
  subst ls. unfold bodies in *. cbn [map concat snd].
  assert (OPEN : tail_bytes p full0 (f, pay) = (enc_section p f ++ enc_line 0 pay, Some f)).
  { unfold tail_bytes. cbn [fst snd]. destruct full0 as [g|]; [|reflexivity].
    replace (f - g <=? MAXD)%N with false by (symmetry; apply N.leb_gt; lia). reflexivity. }
  assert (RUN : Forall (fun y => (fst y - f <= MAXD)%N) r).
  { inversion F as [|? ? _ Fr]; subst. eapply Forall_impl; [|exact Fr]. intros y (_ & H & _). exact H. }
  assert (NEXT : match t with (f2, _) :: _ => (f + MAXD < f2)%N | [] => True end).
  { destruct t as [|[f2 l2] t']; [exact I|]. apply Nx. }
  destruct (IH (Some f) Gt NEXT) as [IH1 IH2].
  split.
  - cbn [app encode_from]. rewrite OPEN. rewrite (encode_from_run p f r RUN), IH1.
    pose proof (sec_bytes_first p (f, pay) r) as SB. cbn [fst snd] in SB. rewrite SB. rewrite <- !app_assoc. reflexivity.
  - cbn [app full_after]. rewrite OPEN. cbn [snd].
    assert (FR : forall rest, full_after p (Some f) (r ++ rest) = full_after p (Some f) rest).
    { clear -RUN. induction r as [|y r IHr]; intros rest; [reflexivity|]. inversion RUN; subst.
      cbn [app full_after tail_bytes]. replace (fst y - f <=? MAXD)%N with true by (symmetry; apply N.leb_le; assumption).
      cbn [snd]. apply IHr. assumption. }
    rewrite FR, IH2. destruct t as [|s2 t']; [reflexivity|]. rewrite !Layout.last_cons. reflexivity.
Qed.

Lemma bodies_app a b : bodies (a ++ b) = bodies a ++ bodies b.
Proof. unfold bodies. rewrite map_app, concat_app. reflexivity. Qed.

(* a prefix of good sections, with the last one cut after c >= 1 lines, is good *)
Lemma good_prefix pre f ls post c : good_secs p (pre ++ (f, ls) :: post) -> 1 <= c -> c <= length ls ->
  good_secs p (pre ++ [(f, firstn c ls)]).
Proof.
  intros G H1 H2. induction pre as [|s0 pre IH]; cbn [app] in *.
  - cbn [good_secs] in *. destruct G as (((pay & r & Els) & F & S) & _ & _). split; [|split; exact I].
    subst ls. split; [|split].
    + destruct c; [lia|]. cbn [firstn]. eauto.
    + apply Forall_firstn. exact F.
    + rewrite <- firstn_map. clear -S. revert c. generalize (map fst ((f, pay) :: r)) S. intros l0 S0.
      induction S0 as [|x l1 S1 IHS Hall]; intros c; [rewrite firstn_nil; constructor|].
      destruct c; cbn [firstn]; constructor; [apply IHS|]. clear -Hall. revert c. induction Hall; intros c; [rewrite firstn_nil; constructor|].
      destruct c; cbn [firstn]; constructor; auto.
  - cbn [good_secs] in G. destruct G as (Ok0 & Nx & G). cbn [good_secs]. split; [exact Ok0|]. split; [|apply IH; exact G].
    destruct pre as [|[f1 l1] pre']; cbn [app] in *; exact Nx.
Qed.

(* length of the encoding of the first lines: all sections before, plus c lines of the current one *)
Theorem prefix_encode pre f ls post c : good_secs p (pre ++ (f, ls) :: post) -> c <= length ls ->
  encode p (bodies pre ++ firstn c ls)
  = concat (map (sec_bytes p) pre) ++ (if c =? 0 then [] else sec_bytes p (f, firstn c ls))
  /\ full_after p None (bodies pre ++ firstn c ls)
     = (if c =? 0 then match pre with [] => None | _ => Some (fst (last pre (0%N, []))) end else Some f).
Proof.
  intros G Hc. destruct c as [|c'].
  - cbn [firstn Nat.eqb]. rewrite !app_nil_r. apply good_app_inv in G. destruct G as [Gp _].
    destruct (encode_from_good pre None Gp I) as [E1 E2]. split; [exact E1|exact E2].
  - cbn [Nat.eqb]. pose proof (good_prefix pre f ls post (S c') G ltac:(lia) Hc) as GP.
    destruct (encode_from_good _ None GP I) as [E1 E2].
    rewrite bodies_app in E1, E2. unfold bodies at 2 in E1. unfold bodies at 2 in E2. cbn [map concat snd] in E1, E2.
    rewrite app_nil_r in E1, E2. unfold encode. rewrite E1, E2. split.
    + rewrite map_app, concat_app. cbn [map concat]. rewrite app_nil_r. reflexivity.
    + destruct (pre ++ [(f, firstn (S c') ls)]) eqn:EE; [destruct pre; discriminate|]. rewrite <- EE.
      rewrite last_last. reflexivity.
Qed.
End Good.

(* ---- counting lines below / up to a bound across sections ---- *)
Lemma count_lt_app k a b : Forall (fun y => (fst y < k)%N) a -> count_lt k (a ++ b) = length a + count_lt k b.
Proof.
  induction a as [|y a IH]; intros F; [reflexivity|]. inversion F as [|? ? Hy Fa]; subst. cbn beta in Hy. cbn [app count_lt length].
  replace (fst y <? k)%N with true by (symmetry; apply N.ltb_lt; assumption). rewrite IH by assumption. reflexivity.
Qed.
Lemma count_le_app k a b : Forall (fun y => (fst y <= k)%N) a -> count_le k (a ++ b) = length a + count_le k b.
Proof.
  induction a as [|y a IH]; intros F; [reflexivity|]. inversion F as [|? ? Hy Fa]; subst. cbn beta in Hy. cbn [app count_le length].
  replace (fst y <=? k)%N with true by (symmetry; apply N.leb_le; assumption). rewrite IH by assumption. reflexivity.
Qed.
Lemma count_lt_stop k (a b:list line) : count_lt k a < length a -> count_lt k (a ++ b) = count_lt k a.
Proof.
  induction a as [|y a IH]; cbn [count_lt length app]; intros H; [lia|].
  destruct (fst y <? k)%N; [|reflexivity]. rewrite IH by lia. reflexivity.
Qed.
Lemma count_le_stop k (a b:list line) : count_le k a < length a -> count_le k (a ++ b) = count_le k a.
Proof.
  induction a as [|y a IH]; cbn [count_le length app]; intros H; [lia|].
  destruct (fst y <=? k)%N; [|reflexivity]. rewrite IH by lia. reflexivity.
Qed.
Lemma count_lt_zero k (b:list line) : match b with y :: _ => (k <= fst y)%N | [] => True end -> count_lt k b = 0.
Proof. destruct b as [|y t]; intros H; [reflexivity|]. cbn [count_lt]. replace (fst y <? k)%N with false by (symmetry; apply N.ltb_ge; exact H). reflexivity. Qed.
Lemma count_le_zero k (b:list line) : match b with y :: _ => (k < fst y)%N | [] => True end -> count_le k b = 0.
Proof. destruct b as [|y t]; intros H; [reflexivity|]. cbn [count_le]. replace (fst y <=? k)%N with false by (symmetry; apply N.leb_gt; exact H). reflexivity. Qed.
Lemma count_lt_all k (a:list line) : Forall (fun y => (fst y < k)%N) a -> count_lt k a = length a.
Proof. intros F. rewrite <- (app_nil_r a) at 1. rewrite count_lt_app by exact F. cbn [count_lt]. lia. Qed.

Lemma count_le_all' k (a:list line) : Forall (fun y => (fst y <= k)%N) a -> count_le k a = length a.
Proof. intros F. rewrite <- (app_nil_r a) at 1. rewrite count_le_app by exact F. cbn [count_le]. lia. Qed.

(* for sorted lines: the lines in [s, e] are those between the two counts *)
Lemma filter_lt_sorted k : forall (l:list line), StronglySorted N.lt (map fst l) ->
  filter (fun x => (fst x <? k)%N) l = firstn (count_lt k l) l.
Proof.
  induction l as [|y t IH]; intros S; [reflexivity|]. cbn [map] in S. inversion S as [|? ? St Hall]; subst.
  cbn [filter count_lt]. destruct (fst y <? k)%N eqn:C; cbn [firstn]; [rewrite IH by exact St; reflexivity|].
  apply N.ltb_ge in C. rewrite Forall_map in Hall. clear -Hall C.
  induction t as [|z t IHt]; [reflexivity|]. inversion Hall as [|? ? Hz Ht]; subst. cbn [filter].
  replace (fst z <? k)%N with false by (symmetry; apply N.ltb_ge; lia). apply IHt. exact Ht.
Qed.
