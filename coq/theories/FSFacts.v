(* Facts about the file-system model: what each primitive does to the content of each file *)
From Coq Require Import List NArith ZArith Lia Bool Arith ZifyBool ZifyN ZifyNat.
From Coq Require Import Strings.Byte.
Require Import BS.Bytes BS.Common BS.CommonFacts BS.Api BS.FS BS.Header.
Import ListNotations.
Close Scope N_scope. Open Scope nat_scope.

Lemma bytes_eqb_eq a b : bytes_eqb a b = true <-> a = b.
Proof. unfold bytes_eqb. destruct (list_eq_dec Byte.byte_eq_dec a b); split; congruence. Qed.
Lemma bytes_eqb_refl a : bytes_eqb a a = true. Proof. apply bytes_eqb_eq. reflexivity. Qed.
Lemma bytes_eqb_neq a b : a <> b -> bytes_eqb a b = false.
Proof. intros H. destruct (bytes_eqb a b) eqn:E; [apply bytes_eqb_eq in E; contradiction|reflexivity]. Qed.

Lemma fs_raw_put_same fs f c : fs_raw (fs_put_raw fs f c) f = Some c.
Proof.
  induction fs as [|[g d] t IH]; cbn [fs_put_raw fs_raw].
  - rewrite bytes_eqb_refl. reflexivity.
  - destruct (bytes_eqb g f) eqn:E; cbn [fs_raw]; rewrite E; [reflexivity|exact IH].
Qed.
Lemma fs_raw_put_other fs f g c : g <> f -> fs_raw (fs_put_raw fs f c) g = fs_raw fs g.
Proof.
  intros N. induction fs as [|[h d] t IH]; cbn [fs_put_raw fs_raw].
  - rewrite (bytes_eqb_neq f g) by congruence. reflexivity.
  - destruct (bytes_eqb h f) eqn:E; cbn [fs_raw].
    + apply bytes_eqb_eq in E. subst h. rewrite (bytes_eqb_neq f g) by congruence. reflexivity.
    + destruct (bytes_eqb h g); [reflexivity|exact IH].
Qed.

Lemma fs_get_put_same fs f c : fs_get (fs_put fs f c) f = Some c.
Proof. unfold fs_get, fs_put. rewrite fs_raw_put_same. cbn [option_map]. rewrite !frev_rev, rev_involutive. reflexivity. Qed.
Lemma fs_get_put_other fs f g c : g <> f -> fs_get (fs_put fs f c) g = fs_get fs g.
Proof. intros N. unfold fs_get, fs_put. rewrite fs_raw_put_other by exact N. reflexivity. Qed.

Lemma fs_get_raw fs f c : fs_get fs f = Some c -> fs_raw fs f = Some (rev c).
Proof.
  unfold fs_get. destruct (fs_raw fs f) as [r|]; cbn [option_map]; [|discriminate].
  intros E. inversion E. rewrite frev_rev, rev_involutive. reflexivity.
Qed.

Lemma mbind_ok {A B} (m:M A) (f:A -> M B) fs fs' a : m fs = (fs', Ok a) -> mbind m f fs = f a fs'.
Proof. intros H. unfold mbind. rewrite H. reflexivity. Qed.

(* append: the file grows at its end, every other file is untouched *)
Lemma append_ok fs f c b : fs_get fs f = Some c ->
  exists fs', append f b fs = (fs', Ok tt) /\ fs_get fs' f = Some (c ++ b)
              /\ (forall g, g <> f -> fs_get fs' g = fs_get fs g).
Proof.
  intros H. unfold append. rewrite (fs_get_raw _ _ _ H). eexists. split; [reflexivity|]. split.
  - unfold fs_get. rewrite fs_raw_put_same. cbn [option_map]. rewrite frev_rev, rev_append_rev, rev_app_distr, !rev_involutive. reflexivity.
  - intros g N. unfold fs_get. rewrite fs_raw_put_other by exact N. reflexivity.
Qed.

Lemma file_len_ok fs f c : fs_get fs f = Some c -> file_len f fs = (fs, Ok (len c)).
Proof. intros H. unfold file_len. rewrite (fs_get_raw _ _ _ H). unfold len. rewrite rev_length. reflexivity. Qed.

Lemma read_from_ok fs f c pos : fs_get fs f = Some c -> read_from f pos fs = (fs, Ok (drop pos c)).
Proof. intros H. unfold read_from. rewrite H. reflexivity. Qed.

(* ---- files with a header ---- *)
(* the file named by `o` consists of `hdr` (outer header included) followed by `region` *)
Definition file_is (fs:fsys) (o:ofile) (hdr region:list byte) : Prop :=
  fs_get fs (of_name o) = Some (hdr ++ region) /\ of_off o = len hdr.

Lemma of_len_ok fs o hdr region : file_is fs o hdr region -> of_len o fs = (fs, Ok (len region)).
Proof.
  intros [G O]. unfold of_len, mbind. rewrite (file_len_ok _ _ _ G). unfold lift, u64_sub. rewrite O, len_app.
  replace (len hdr <=? len hdr + len region)%N with true by (symmetry; apply N.leb_le; lia).
  f_equal. f_equal. lia.
Qed.
Lemma of_read_from_0 fs o hdr region : file_is fs o hdr region -> of_read_from o 0 fs = (fs, Ok region).
Proof.
  intros [G O]. unfold of_read_from. rewrite (read_from_ok _ _ _ _ G). rewrite O, N.add_0_l, drop_app_exact. reflexivity.
Qed.
Lemma of_append_ok fs o hdr region b : file_is fs o hdr region ->
  exists fs', of_append o b fs = (fs', Ok tt) /\ file_is fs' o hdr (region ++ b)
              /\ (forall g, g <> of_name o -> fs_get fs' g = fs_get fs g).
Proof.
  intros [G O]. unfold of_append. destruct (append_ok fs _ _ b G) as (fs' & E & G' & Oth).
  exists fs'. split; [exact E|]. split; [|exact Oth]. split; [rewrite G', app_assoc; reflexivity|exact O].
Qed.

Lemma of_read_at_ok fs o hdr region pos n : file_is fs o hdr region -> (pos + n <= len region)%N ->
  of_read_at o pos n fs = (fs, Ok (slice pos (pos + n) region)).
Proof.
  intros [G O] H. unfold of_read_at, read_at. rewrite G.
  destruct (n =? 0)%N eqn:Z.
  - apply N.eqb_eq in Z. subst n. unfold slice. rewrite N.add_0_r, N.sub_diag, take_firstn. reflexivity.
  - rewrite len_app, O. replace (pos + len hdr + n <=? len hdr + len region)%N with true by (symmetry; apply N.leb_le; lia).
    f_equal. f_equal. unfold slice. rewrite !drop_skipn, !take_firstn.
    replace (N.to_nat (pos + len hdr)) with (length hdr + N.to_nat pos) by (unfold len; lia).
    rewrite <- skipn_plus, skipn_app, Nat.sub_diag, skipn_all. cbn [skipn app]. f_equal. lia.
Qed.
