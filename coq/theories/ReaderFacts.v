(* Layer I: the chunked reader with carry-over (read_with_processor) computes, for every chunk
   size that is a multiple of the line size, exactly what one uninterrupted pass of the line
   automaton over the requested byte range computes (C01, the part about internal read buffers:
   a section may be split by any number of consecutive buffer boundaries). *)
From Coq Require Import List NArith ZArith Lia Bool Arith ZifyBool ZifyN ZifyNat.
From Coq Require Import Strings.Byte.
Require Import BS.Bytes BS.Common BS.CommonFacts BS.Api BS.Meta BS.Reader.
Require BSgen.Consts.
Import ListNotations.
Close Scope N_scope. Open Scope nat_scope.
Arguments N.add : simpl never. Arguments N.mul : simpl never. Arguments N.sub : simpl never.
Arguments N.div : simpl never. Arguments N.modulo : simpl never. Arguments N.min : simpl never.
Arguments N.ltb : simpl never. Arguments N.leb : simpl never. Arguments N.eqb : simpl never.
Ltac Zify.zify_post_hook ::= Z.div_mod_to_equations.

Section R.
Variable St : Type.
Variable proc : St -> N -> list byte -> pres St.
Variable p : nat.
Variable cb : cbmode.
Notation L := (p + 2).
Notation scan_lines := (scan_lines St proc p cb).
Notation line_step := (line_step St proc p cb).

Definition held_slots (st:rst) : list slot :=
  match st with RN => [] | RS => [] | R1 a => [a] | R2 a b got => a :: b :: got end.
Lemma held_length st : length (held_slots st) = held st.
Proof. destruct st; reflexivity. Qed.

(* well-formed intermediate states *)
Definition wf_rst (st:rst) : Prop :=
  match st with
  | RN => True
  | RS => True
  | R1 a => is_marker a = true
  | R2 a b got => is_marker a = true /\ is_marker b = true /\ length got < ncont p
  end.

Lemma scan_lines_app : forall x y full st acc,
  scan_lines full st acc (x ++ y)
  = match scan_lines full st acc x with
    | LCont f' st' acc' => scan_lines f' st' acc' y
    | other => other
    end.
Proof.
  induction x as [|a x IH]; intros y full st acc; cbn [app Reader.scan_lines]; [reflexivity|].
  destruct (line_step full st acc a); try reflexivity. apply IH.
Qed.

Lemma line_step_wf full st acc x f' st' acc' : wf_rst st -> line_step full st acc x = LCont f' st' acc' -> wf_rst st'.
Proof.
  intros W E. destruct st as [| |a|a b got]; cbn [Reader.line_step wf_rst] in *.
  - destruct (is_marker x) eqn:M; [inversion E; subst; exact M|].
    destruct (ts_from x full) as [ts|e| |]; try discriminate. destruct (proc acc ts (skipn 2 x)); inversion E; subst; exact I.
  - destruct (is_marker x) eqn:M; inversion E; subst; [exact M|exact I].
  - destruct (is_marker x) eqn:M.
    + destruct (ncont p =? 0) eqn:C; inversion E; subst; cbn [wf_rst]; [exact I|].
      apply Nat.eqb_neq in C. repeat split; try assumption. cbn [length]. lia.
    + destruct cb; inversion E; subst; exact I.
  - destruct W as (Ma & Mb & Lg).
    destruct (length (got ++ [x]) =? ncont p) eqn:C; inversion E; subst; cbn [wf_rst]; [exact I|].
    apply Nat.eqb_neq in C. rewrite app_length in *. cbn [length] in *. repeat split; try assumption. lia.
Qed.

Lemma scan_lines_wf : forall ls full st acc f' st' acc', wf_rst st ->
  scan_lines full st acc ls = LCont f' st' acc' -> wf_rst st'.
Proof.
  induction ls as [|x t IH]; intros full st acc f' st' acc' W E; cbn [Reader.scan_lines] in E.
  - inversion E; subst; exact W.
  - destruct (line_step full st acc x) eqn:E1; try discriminate.
    eapply IH; [eapply line_step_wf; eassumption|exact E].
Qed.

(* re-scanning the lines a state holds, from the line-boundary state, reproduces the state and
   calls the processor for none of them *)
Lemma replay_got : forall got2 got1 full a b acc, length (got1 ++ got2) < ncont p ->
  scan_lines full (R2 a b got1) acc got2 = LCont full (R2 a b (got1 ++ got2)) acc.
Proof.
  induction got2 as [|x t IH]; intros got1 full a b acc H; cbn [Reader.scan_lines].
  - rewrite app_nil_r. reflexivity.
  - cbn [Reader.line_step].
    replace (length (got1 ++ [x]) =? ncont p) with false
      by (symmetry; apply Nat.eqb_neq; rewrite !app_length in *; cbn [length] in *; lia).
    rewrite IH by (rewrite <- app_assoc; exact H). rewrite <- app_assoc. reflexivity.
Qed.
Definition base (st:rst) : rst := match st with RS => RS | _ => RN end.
Lemma replay full st acc : wf_rst st -> scan_lines full (base st) acc (held_slots st) = LCont full st acc.
Proof.
  destruct st as [| |a|a b got]; cbn [held_slots wf_rst base]; intros W.
  - reflexivity.
  - reflexivity.
  - cbn [Reader.scan_lines Reader.line_step]. rewrite W. reflexivity.
  - destruct W as (Ma & Mb & Lg). cbn [Reader.scan_lines Reader.line_step]. rewrite Ma.
    cbn [Reader.line_step]. rewrite Mb.
    replace (ncont p =? 0) with false by (symmetry; apply Nat.eqb_neq; lia).
    rewrite (replay_got got [] full a b acc) by exact Lg. reflexivity.
Qed.

(* the lines a state holds are the last lines that were scanned *)
Lemma line_step_suffix full st acc x f' st' acc' : line_step full st acc x = LCont f' st' acc' ->
  exists pre, held_slots st ++ [x] = pre ++ held_slots st'.
Proof.
  intros E. destruct st as [| |a|a b got]; cbn [Reader.line_step held_slots] in *.
  - destruct (is_marker x); [inversion E; subst; exists []; reflexivity|].
    destruct (ts_from x full) as [ts|e| |]; try discriminate. destruct (proc acc ts (skipn 2 x)); inversion E; subst.
    exists [x]. cbn [held_slots]. rewrite app_nil_r. reflexivity.
  - destruct (is_marker x); inversion E; subst; [exists []; reflexivity|exists [x]; reflexivity].
  - destruct (is_marker x).
    + destruct (ncont p =? 0); inversion E; subst; cbn [held_slots].
      * exists [a; x]. rewrite app_nil_r. reflexivity.
      * exists []. reflexivity.
    + destruct cb; inversion E; subst. exists [a; x]. cbn [held_slots]. rewrite app_nil_r. reflexivity.
  - destruct (length (got ++ [x]) =? ncont p); inversion E; subst; cbn [held_slots].
    + exists (a :: b :: got ++ [x]). rewrite app_nil_r. reflexivity.
    + exists []. reflexivity.
Qed.
Lemma scan_lines_suffix : forall ls full st acc f' st' acc',
  scan_lines full st acc ls = LCont f' st' acc' -> exists pre, held_slots st ++ ls = pre ++ held_slots st'.
Proof.
  induction ls as [|x t IH]; intros full st acc f' st' acc' E; cbn [Reader.scan_lines] in E.
  - inversion E; subst. exists []. rewrite app_nil_r. reflexivity.
  - destruct (line_step full st acc x) as [f1 st1 acc1| | |] eqn:E1; try discriminate.
    destruct (line_step_suffix _ _ _ _ _ _ _ E1) as [pre1 P1].
    destruct (IH _ _ _ _ _ _ E) as [pre2 P2].
    exists (pre1 ++ pre2).
    replace (held_slots st ++ x :: t) with ((held_slots st ++ [x]) ++ t) by (rewrite <- app_assoc; reflexivity).
    rewrite P1, <- !app_assoc, P2. reflexivity.
Qed.

Definition result_of (r:lres St) : rres St :=
  match r with LCont _ _ a => RDone a | LStop a => RStopped a | LCorrupt a => RCorrupt a | LPanic => RPanic end.

Lemma held_bound st : wf_rst st -> held st <= 5.
Proof.
  destruct st as [| |a|a b got]; cbn [wf_rst held]; intros W; try lia.
  destruct W as (_ & _ & Lg). assert (ncont p <= 4) by (destruct p as [|[|[|[|n]]]]; cbn; lia). lia.
Qed.

Lemma slots_lengths_concat (ls:list slot) : Forall (fun s => length s = L) ls -> length (concat ls) = length ls * L.
Proof. apply concat_length_uniform. Qed.

(* the main loop: from a state whose held lines are in `carry`, reading [pos, pos+to_read) in
   chunks equals one pass over the lines of that range *)
Theorem chunk_loop_is_scan : forall (n:nat) (chunkn:nat) (region:list byte) (pos to_read:nat) full st acc,
  chunkn > 0 -> chunkn mod L = 0 -> to_read mod L = 0 -> pos + to_read <= length region ->
  to_read <= n * chunkn -> (5 <= BSgen.Consts.read_overlap_lines)%N ->
  wf_rst st -> Forall (fun s => length s = L) (held_slots st) ->
  chunk_loop St proc p cb n (N.of_nat chunkn) region (N.of_nat pos) (N.of_nat to_read) full (base st) (concat (held_slots st)) acc
  = result_of (scan_lines full st acc (chunks L (firstn to_read (skipn pos region)))).
Proof.
  induction n as [|n IH]; intros chunkn region pos to_read full st acc Hc Hcm Htm Hle Hn Hov W HL.
  - assert (to_read = 0) by lia. subst. cbn [Reader.chunk_loop firstn]. rewrite chunks_nil. reflexivity.
  - cbn [Reader.chunk_loop].
    destruct (N.of_nat to_read =? 0)%N eqn:Z.
    { apply N.eqb_eq in Z. assert (to_read = 0) by lia. subst. cbn [firstn]. rewrite chunks_nil. reflexivity. }
    apply N.eqb_neq in Z.
    set (rs := Nat.min chunkn to_read).
    assert (RS : N.min (N.of_nat chunkn) (N.of_nat to_read) = N.of_nat rs) by (unfold rs; lia).
    rewrite RS.
    replace (len region <? N.of_nat pos + N.of_nat rs)%N with false by (symmetry; apply N.ltb_ge; unfold len, rs; lia).
    pose proof (held_bound st W) as HB.
    assert (LC : length (concat (held_slots st)) = held st * L).
    { rewrite slots_lengths_concat by exact HL. rewrite held_length. reflexivity. }
    replace (N.of_nat chunkn + BSgen.Consts.read_overlap_lines * N.of_nat L <? len (concat (held_slots st)) + N.of_nat rs)%N
      with false by (symmetry; apply N.ltb_ge; unfold len; rewrite LC; unfold rs; nia).
    (* the chunk that is read *)
    assert (SL : slice (N.of_nat pos) (N.of_nat pos + N.of_nat rs) region = firstn rs (skipn pos region)).
    { unfold slice. rewrite take_firstn, drop_skipn. f_equal; [lia|]. f_equal. lia. }
    rewrite SL.
    assert (RSm : rs mod L = 0).
    { unfold rs. destruct (Nat.min_dec chunkn to_read) as [E|E]; rewrite E; assumption. }
    assert (Lchunk : length (firstn rs (skipn pos region)) = rs).
    { rewrite firstn_length, skipn_length. unfold rs. lia. }
    (* buf = held lines ++ chunk; its lines = held slots ++ lines of the chunk *)
    assert (CH : chunks L (concat (held_slots st) ++ firstn rs (skipn pos region))
                 = held_slots st ++ chunks L (firstn rs (skipn pos region))).
    { apply chunks_app; [lia|exact HL]. }
    rewrite CH, scan_lines_app, (replay full st acc W).
    (* the whole range = this chunk ++ the rest *)
    assert (SPLIT : firstn to_read (skipn pos region)
                    = firstn rs (skipn pos region) ++ firstn (to_read - rs) (skipn (pos + rs) region)).
    { replace to_read with (rs + (to_read - rs)) at 1 by (unfold rs; lia).
      rewrite firstn_plus. rewrite skipn_plus. reflexivity. }
    rewrite SPLIT, chunks_app_aligned by (try lia; rewrite Lchunk; exact RSm).
    rewrite scan_lines_app.
    destruct (scan_lines full st acc (chunks L (firstn rs (skipn pos region)))) as [f1 st1 acc1|a1|a1|] eqn:E1;
      cbn [result_of]; try reflexivity.
    pose proof (scan_lines_wf _ _ _ _ _ _ _ W E1) as W1.
    destruct (scan_lines_suffix _ _ _ _ _ _ _ E1) as [pre P1].
    (* lengths of all scanned slots *)
    assert (ALL : Forall (fun s => length s = L) (held_slots st ++ chunks L (firstn rs (skipn pos region)))).
    { apply Forall_app. split; [exact HL|].
      destruct (aligned_split L (rs / L) (firstn rs (skipn pos region))) as (ls & E & F & N).
      { rewrite Lchunk. pose proof (Nat.div_mod rs L ltac:(lia)). lia. }
      rewrite E, chunks_concat by (try lia; exact F). exact F. }
    rewrite P1 in ALL. apply Forall_app in ALL. destruct ALL as [Fpre HL1].
    set (buf := concat (held_slots st) ++ firstn rs (skipn pos region)).
    assert (BUF : buf = concat pre ++ concat (held_slots st1)).
    { transitivity (concat (pre ++ held_slots st1)); [|apply concat_app]. rewrite <- P1, concat_app. unfold buf. f_equal.
      destruct (aligned_split L (rs / L) (firstn rs (skipn pos region))) as (ls & E & F & N).
      { rewrite Lchunk. pose proof (Nat.div_mod rs L ltac:(lia)). lia. }
      rewrite E at 2. rewrite chunks_concat by (try lia; exact F). exact E. }
    assert (LC1 : length (concat (held_slots st1)) = held st1 * L).
    { rewrite slots_lengths_concat by exact HL1. rewrite held_length. reflexivity. }
    replace (len buf <? N.of_nat (held st1 * L))%N with false
      by (symmetry; apply N.ltb_ge; unfold len; rewrite BUF, app_length, LC1; lia).
    assert (DROP : drop (len buf - N.of_nat (held st1 * L)) buf = concat (held_slots st1)).
    { rewrite BUF. replace (len (concat pre ++ concat (held_slots st1)) - N.of_nat (held st1 * L))%N with (len (concat pre))
        by (unfold len; rewrite app_length, LC1; lia).
      apply drop_app_exact. }
    rewrite DROP.
    replace (N.of_nat pos + N.of_nat rs)%N with (N.of_nat (pos + rs)) by lia.
    replace (N.of_nat to_read - N.of_nat rs)%N with (N.of_nat (to_read - rs)) by (unfold rs; lia).
    apply IH; try assumption.
    + unfold rs. destruct (Nat.min_dec chunkn to_read) as [E|E]; rewrite E.
      * rewrite <- Nat.mod_add with (b := 1) by lia. replace (to_read - chunkn + 1 * L) with (to_read - chunkn + L) by lia.
        destruct (Nat.le_gt_cases chunkn to_read) as [Hle2|Hgt]; [|lia].
        pose proof (Nat.div_mod to_read L ltac:(lia)). pose proof (Nat.div_mod chunkn L ltac:(lia)).
        assert (X : to_read - chunkn + L = (to_read / L - chunkn / L + 1) * L) by nia.
        rewrite X. apply Nat.mod_mul. lia.
      * rewrite Nat.sub_diag. apply Nat.mod_0_l. lia.
    + unfold rs. lia.
    + unfold rs. nia.
Qed.
End R.

(* ---- the line automaton of the reader (Layer I) against the reference decoder (Layer F) ---- *)
Require Import BS.Layout BS.Format BS.FormatFacts BS.MetaFacts.

Section Sim.
Variable St : Type.
Variable proc : St -> N -> list byte -> pres St.
Variable p : nat.
Variable cb : cbmode.
Notation L := (p + 2).

(* hand the decoded lines to the processor, in order, as the reader does *)
Fixpoint feed (acc:St) (ls:list line) : pres St :=
  match ls with
  | [] => PCont acc
  | x :: t => if (fst x <? U64)%N
              then match proc acc (fst x) (snd x) with PCont a => feed a t | other => other end
              else PPanic
  end.
Lemma feed_app : forall a b acc, feed acc (a ++ b) = match feed acc a with PCont x => feed x b | other => other end.
Proof.
  induction a as [|x t IH]; intros b acc; cbn [app feed]; [reflexivity|].
  destruct (fst x <? U64)%N; [|reflexivity]. destruct (proc acc (fst x) (snd x)); try reflexivity. apply IH.
Qed.

Inductive match_st (f:N) : rst -> fstate -> Prop :=
| MS_N : match_st f RN (FNormal f)
| MS_1 a : length a = L -> match_st f (R1 a) (FOne (Some f) a)
| MS_2 a b got : length a = L -> length b = L -> Forall (fun s => length s = L) got -> length got < Layout.ncont p ->
                 match_st f (R2 a b got) (FSec (Some f) a b got).

Definition full_of_st (s:fstate) (d:N) : N := match full_opt s with Some f => f | None => d end.

Lemma line_step_R2 f a b got acc x :
  line_step St proc p cb f (R2 a b got) acc x
  = if length (got ++ [x]) =? Layout.ncont p then LCont (meta_read_ts p a b (got ++ [x])) RN acc
    else LCont f (R2 a b (got ++ [x])) acc.
Proof. cbn [Reader.line_step]. rewrite ncont_eq. reflexivity. Qed.
Lemma line_step_R1 f a acc x : Layout.is_marker x = true ->
  line_step St proc p cb f (R1 a) acc x
  = if Layout.ncont p =? 0 then LCont (meta_read_ts p a x []) RN acc else LCont f (R2 a x []) acc.
Proof. intros M. cbn [Reader.line_step]. rewrite is_marker_eq, M, ncont_eq. reflexivity. Qed.

Lemma sim_step f st fs0 acc x i lines secs g ss : match_st f st fs0 -> length x = L ->
  let s' := fstep p (mk fs0 i lines secs g ss) x in
  f_st s' <> FBad ->
  exists f' st', match_st f' st' (f_st s')
    /\ ((f_lines s' = lines /\ line_step St proc p cb f st acc x = LCont f' st' acc)
        \/ (exists ln, f_lines s' = ln :: lines /\ st = RN /\ st' = RN /\ f' = f
            /\ line_step St proc p cb f st acc x
               = (if (fst ln <? U64)%N
                  then match proc acc (fst ln) (snd ln) with PCont a => LCont f RN a | PStop a => LStop a | PPanic => LPanic end
                  else LPanic))).
Proof.
  intros M Lx s' NB. subst s'. destruct M as [|a La|a b got La Lb Lg Ng].
  - (* at a line boundary *)
    unfold fstep, mk in *. cbn [f_st f_idx f_lines f_secs f_good f_sec_start] in *.
    cbn [Reader.line_step]. change (Meta.is_marker x) with (Layout.is_marker x).
    destruct (Layout.is_marker x) eqn:Mx; cbn [f_st f_lines] in *.
    + exists f, (R1 x). split; [constructor; exact Lx|]. left. split; reflexivity.
    + exists f, RN. split; [constructor|]. right.
      exists ((f + le_dec (firstn 2 x))%N, skipn 2 x). repeat split.
      unfold ts_from, u64_add. cbn [fst snd].
      destruct (f + le_dec (firstn 2 x) <? U64)%N; reflexivity.
  - destruct (Layout.is_marker x) eqn:Mx.
    + rewrite (fstep_FOne p (Some f) a i lines secs g ss x Mx) in *. rewrite (line_step_R1 f a acc x Mx).
      destruct (Layout.ncont p =? 0) eqn:C; cbn [f_st f_lines mk] in *.
      * eexists _, RN. split; [constructor|]. left. split; [reflexivity|].
        rewrite meta_read_is_read_ts; try assumption; try constructor.
        rewrite ncont_eq. apply Nat.eqb_eq in C. rewrite C. reflexivity.
      * exists f, (R2 a x []). split; [constructor; try assumption; [constructor|apply Nat.eqb_neq in C; cbn [length]; lia]|].
        left. split; reflexivity.
    + exfalso. apply NB. unfold fstep, mk. cbn [f_st]. rewrite Mx. reflexivity.
  - rewrite (fstep_FSec p (Some f) a b got i lines secs g ss x) in *. rewrite line_step_R2.

    destruct (length (got ++ [x]) =? Layout.ncont p) eqn:C; cbn [f_st f_lines mk] in *.
    + eexists _, RN. split; [constructor|]. left. split; [reflexivity|].
      rewrite meta_read_is_read_ts; try assumption.
      * reflexivity.
      * apply Forall_app. split; [exact Lg|constructor; [exact Lx|constructor]].
      * rewrite ncont_eq. apply Nat.eqb_eq. exact C.
    + exists f, (R2 a b (got ++ [x])). split.
      * constructor; try assumption.
        -- apply Forall_app. split; [exact Lg|constructor; [exact Lx|constructor]].
        -- apply Nat.eqb_neq in C. rewrite app_length in *. cbn [length] in *. lia.
      * left. split; reflexivity.
Qed.

Theorem sim_lines : forall ls f st fs0 acc i lines secs g ss,
  match_st f st fs0 -> Forall (fun s => length s = L) ls ->
  let s' := fold_left (fstep p) ls (mk fs0 i lines secs g ss) in
  f_st s' <> FBad ->
  exists newl f' st', f_lines s' = rev newl ++ lines /\ match_st f' st' (f_st s')
    /\ scan_lines St proc p cb f st acc ls
       = match feed acc newl with PCont a => LCont f' st' a | PStop a => LStop a | PPanic => LPanic end.
Proof.
  induction ls as [|x t IH]; intros f st fs0 acc i lines secs g ss M FL s' NB; subst s'.
  - cbn [fold_left Reader.scan_lines] in *. exists [], f, st. repeat split. exact M.
  - inversion FL as [|? ? Lx Ft]; subst. cbn [fold_left] in *.
    assert (NB1 : f_st (fstep p (mk fs0 i lines secs g ss) x) <> FBad).
    { intro B. apply NB. clear -B. revert B. generalize (fstep p (mk fs0 i lines secs g ss) x).
      induction t as [|y t IHt]; intros s B; cbn [fold_left]; [exact B|]. apply IHt.
      unfold fstep. rewrite B. reflexivity. }
    destruct (sim_step f st fs0 acc x i lines secs g ss M Lx NB1) as (f1 & st1 & M1 & CASE).
    rewrite (fscan_eta (fstep p (mk fs0 i lines secs g ss) x)) in NB |- *.
    cbn [Reader.scan_lines].
    destruct CASE as [(El & Es)|(ln & El & -> & -> & -> & Es)].
    + rewrite Es. rewrite El in *.
      destruct (IH f1 st1 _ acc _ lines _ _ _ M1 Ft NB) as (newl & f' & st' & A & B & C).
      exists newl, f', st'. repeat split; assumption.
    + rewrite Es. rewrite El in *.
      destruct (fst ln <? U64)%N eqn:U.
      * destruct (proc acc (fst ln) (snd ln)) as [a|a|] eqn:P.
        -- destruct (IH f RN _ a _ (ln :: lines) _ _ _ M1 Ft NB) as (newl & f' & st' & A & B & C).
           exists (ln :: newl), f', st'. split; [|split; [exact B|]].
           ++ rewrite A. cbn [rev]. rewrite <- app_assoc. reflexivity.
           ++ cbn [feed]. rewrite U, P. exact C.
        -- destruct (IH f RN _ acc _ (ln :: lines) _ _ _ M1 Ft NB) as (newl & f' & st' & A & B & _).
           exists (ln :: newl), f', st'. split; [|split; [exact B|]].
           ++ rewrite A. cbn [rev]. rewrite <- app_assoc. reflexivity.
           ++ cbn [feed]. rewrite U, P. reflexivity.
        -- destruct (IH f RN _ acc _ (ln :: lines) _ _ _ M1 Ft NB) as (newl & f' & st' & A & B & _).
           exists (ln :: newl), f', st'. split; [|split; [exact B|]].
           ++ rewrite A. cbn [rev]. rewrite <- app_assoc. reflexivity.
           ++ cbn [feed]. rewrite U, P. reflexivity.
      * destruct (IH f RN _ acc _ (ln :: lines) _ _ _ M1 Ft NB) as (newl & f' & st' & A & B & _).
        exists (ln :: newl), f', st'. split; [|split; [exact B|]].
        ++ rewrite A. cbn [rev]. rewrite <- app_assoc. reflexivity.
        ++ cbn [feed]. rewrite U. reflexivity.
Qed.
End Sim.

Lemma feed_read' : forall (l:list (N * list byte)) last out,
  Sorted.StronglySorted N.lt (map fst l) -> Forall (fun x => (fst x < U64)%N) l ->
  (match l with x :: _ => (last < fst x)%N \/ fst x = 0%N | [] => True end) ->
  feed _ proc_read (last, out) l = PCont (match last_opt l with Some y => fst y | None => last end, rev l ++ out).
Proof.
  induction l as [|x t IH]; intros last out S F H; cbn [feed]; [reflexivity|].
  inversion F as [|? ? Hx Ft]; subst. cbn [map] in S. inversion S as [|? ? St Hall]; subst.
  replace (fst x <? U64)%N with true by (symmetry; apply N.ltb_lt; exact Hx).
  unfold proc_read at 1.
  replace ((last <? fst x) || (fst x =? 0))%N with true
    by (symmetry; apply orb_true_iff; destruct H as [H|H]; [left; apply N.ltb_lt; exact H|right; apply N.eqb_eq; exact H]).
  rewrite IH; try assumption.
  - f_equal. destruct x as [tx px]. cbn [fst snd]. f_equal.
    + destruct t as [|y t']; [reflexivity|]. cbn [last_opt]. rewrite Layout.last_cons. reflexivity.
    + cbn [rev]. rewrite <- app_assoc. reflexivity.
  - destruct t as [|y t']; [exact I|]. left. cbn [map] in Hall. inversion Hall; subst. assumption.
Qed.
