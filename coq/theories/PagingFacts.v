(* C13, second half: paging through a series by asking for the next n lines after the last timestamp seen visits
   every line exactly once, for every page size >= 1. Layer S only (Spec.select); each page is what read_first_n
   returns by C13_first_n_is_prefix. *)
From Coq Require Import List NArith ZArith Lia Bool Arith ZifyBool ZifyN ZifyNat Sorted.
From Coq Require Import Strings.Byte.
Require Import BS.Bytes BS.Common BS.CommonFacts BS.Api BS.Layout BS.Spec.
Import ListNotations.
Close Scope N_scope. Open Scope nat_scope.
Arguments N.ltb : simpl never. Arguments N.leb : simpl never.

Definition after (t:N) (l:list line) : list line := select (Excl t) Unb l.

Lemma select_unb l : select Unb Unb l = l.
Proof. unfold select. induction l as [|x t IH]; cbn [filter sat_lo sat_hi andb]; [reflexivity|]. f_equal. exact IH. Qed.

Lemma after_all_greater t l : Forall (fun y => (t < fst y)%N) l -> after t l = l.
Proof.
  unfold after, select. induction 1 as [|x l Hx _ IH]; cbn [filter sat_lo sat_hi]; [reflexivity|].
  replace (t <? fst x)%N with true by (symmetry; apply N.ltb_lt; exact Hx). cbn [andb]. f_equal. exact IH.
Qed.

(* asking for what comes after the timestamp of the i-th line gives the lines from i+1 on *)
Lemma after_nth : forall (l:list line) i x, StronglySorted N.lt (map fst l) -> nth_error l i = Some x ->
  after (fst x) l = skipn (S i) l.
Proof.
  induction l as [|y t IH]; intros i x SS H; [destruct i; discriminate|].
  cbn [map] in SS. inversion SS as [|? ? St Hall]; subst.
  destruct i as [|i'].
  - cbn [nth_error] in H. inversion H; subst y. unfold after, select. cbn [filter sat_lo sat_hi skipn].
    replace (fst x <? fst x)%N with false by (symmetry; apply N.ltb_ge; lia). cbn [andb].
    apply (after_all_greater (fst x) t). rewrite Forall_map in Hall. exact Hall.
  - cbn [nth_error] in H. unfold after, select. cbn [filter sat_lo sat_hi].
    assert (IN : In x t) by (eapply nth_error_In; exact H).
    rewrite Forall_map in Hall. rewrite Forall_forall in Hall. specialize (Hall x IN). cbn beta in Hall.
    replace (fst x <? fst y)%N with false by (symmetry; apply N.ltb_ge; lia). cbn [andb skipn].
    apply (IH i' x St H).
Qed.

Lemma last_opt_cons'' {A} (x:A) (t:list A) : last_opt (x :: t) = match last_opt t with Some y => Some y | None => Some x end.
Proof. destruct t as [|y t']; [reflexivity|]. cbn [last_opt]. rewrite Layout.last_cons. reflexivity. Qed.
Lemma skipn_plus' {A} (a b:nat) (x:list A) : skipn (a + b) x = skipn b (skipn a x).
Proof. symmetry. apply skipn_plus. Qed.

(* the pages: firstn n of what lies after the last timestamp seen; stops at the first empty page *)
Fixpoint pages (fuel n:nat) (l:list line) (lo:bound) : list (list line) :=
  match fuel with
  | O => []
  | S f => let pg := firstn n (select lo Unb l) in
           match last_opt pg with
           | None => []
           | Some y => pg :: pages f n l (Excl (fst y))
           end
  end.

Theorem paging_visits_all n l : n >= 1 -> StronglySorted N.lt (map fst l) ->
  concat (pages (S (length l)) n l Unb) = l.
Proof.
  intros Hn SS.
  assert (GEN : forall fuel k lo, select lo Unb l = skipn k l -> length l - k < fuel ->
            concat (pages fuel n l lo) = skipn k l).
  { induction fuel as [|fuel IH]; intros k lo E Hf; [lia|]. cbn [pages]. rewrite E.
    destruct (last_opt (firstn n (skipn k l))) as [y|] eqn:LO.
    - cbn [concat].
      set (pg := firstn n (skipn k l)) in *.
      assert (NE : pg <> []) by (intros Q; rewrite Q in LO; discriminate).
      assert (LP : 1 <= length pg) by (destruct pg; [contradiction|cbn; lia]).
      assert (Hk : k < length l).
      { destruct (Nat.lt_ge_cases k (length l)) as [Lt|Ge]; [exact Lt|]. exfalso. apply NE. unfold pg. rewrite skipn_all2 by lia. apply firstn_nil. }
      assert (LPk : k + length pg <= length l).
      { unfold pg. rewrite firstn_length, skipn_length. lia. }
      (* y is the line at index k + |pg| - 1 *)
      assert (NY : nth_error l (k + length pg - 1) = Some y).
      { destruct (exists_last NE) as (pg' & y' & Epg). rewrite Epg, last_opt_snoc in LO. inversion LO; subst y'.
        assert (EL : l = firstn k l ++ pg ++ skipn n (skipn k l)) by (unfold pg; rewrite firstn_skipn, firstn_skipn; reflexivity).
        rewrite EL at 1. rewrite nth_error_app2 by (rewrite firstn_length; lia).
        rewrite firstn_length, Nat.min_l by lia. rewrite nth_error_app1 by lia.
        rewrite Epg, app_length. cbn [length]. replace (k + (length pg' + 1) - 1 - k) with (length pg') by lia.
        rewrite nth_error_app2 by lia. rewrite Nat.sub_diag. reflexivity. }
      pose proof (after_nth l _ y SS NY) as AF. unfold after in AF.
      replace (S (k + length pg - 1)) with (k + length pg) in AF by lia.
      rewrite (IH (k + length pg) (Excl (fst y)) AF ltac:(lia)).
      rewrite (skipn_plus' k (length pg) l).
      assert (LPG : length pg = Nat.min n (length (skipn k l))) by (unfold pg; apply firstn_length).
      rewrite <- (firstn_skipn n (skipn k l)) at 2. fold pg. f_equal.
      destruct (Nat.le_gt_cases n (length (skipn k l))) as [Le|Gt].
      + rewrite LPG, Nat.min_l by exact Le. reflexivity.
      + rewrite LPG, Nat.min_r by lia. rewrite !skipn_all2 by lia. reflexivity.
    - destruct (firstn n (skipn k l)) as [|z zs] eqn:F; [|rewrite last_opt_cons'' in LO; destruct (last_opt zs); discriminate].
      cbn [concat]. destruct (skipn k l) as [|w ws]; [reflexivity|]. destruct n; [lia|discriminate]. }
  apply (GEN (S (length l)) 0 Unb); [apply select_unb|lia].
Qed.
