(* Layer I = Layer F for the section layouts: the generated constants agree with the documented
   ones (the obligation that breaks when a format constant is changed in the source), and the
   five hand-modelled arms of meta::write / meta::read are the unified layout of Layout.v. *)
From Coq Require Import List NArith ZArith Lia Bool Arith ZifyBool ZifyN ZifyNat.
From Coq Require Import Strings.Byte.
Require Import BS.Bytes BS.Common BS.CommonFacts BS.Api BS.Layout BS.Format BS.FormatFacts BS.Meta.
Require BSgen.Consts.
Import ListNotations.
Close Scope N_scope. Open Scope nat_scope.

(* Tie 1 obligation: compiled against the constants regenerated from /repo/src on every run *)
Lemma consts_agree :
  BSgen.Consts.max_small_ts = MAXD
  /\ BSgen.Consts.preamble0 = xff /\ BSgen.Consts.preamble1 = xff
  /\ (BSgen.Consts.k_p0, BSgen.Consts.k_p1, BSgen.Consts.k_p2, BSgen.Consts.k_p3, BSgen.Consts.k_p4) = (6, 4, 3, 3, 2)
  /\ BSgen.Consts.index_entry_size = 16%N
  /\ BSgen.Consts.line_ends = ["010"; "010"]%byte
  /\ BSgen.Consts.version = 1%N
  /\ (0 < BSgen.Consts.read_chunk)%N /\ (0 < BSgen.Consts.scan_chunk)%N
  /\ (5 <= BSgen.Consts.read_overlap_lines)%N
  /\ (2 <= BSgen.Consts.last_meta_overlap_factor)%N /\ (0 < BSgen.Consts.last_meta_window)%N.
Proof. repeat split; try reflexivity; vm_compute; congruence. Qed.

Lemma pre0_ff : pre0 = xff. Proof. reflexivity. Qed.
Lemma pre1_ff : pre1 = xff. Proof. reflexivity. Qed.

Lemma is_marker_eq s : Meta.is_marker s = Layout.is_marker s.
Proof. reflexivity. Qed.
Lemma K_eq p : lines_per_metainfo p = Layout.K p.
Proof. destruct p as [|[|[|[|n]]]]; reflexivity. Qed.
Lemma ncont_eq p : Meta.ncont p = Layout.ncont p.
Proof. destruct p as [|[|[|[|n]]]]; reflexivity. Qed.

(* the 8 bytes of a timestamp *)
Lemma le_enc8 t : exists b0 b1 b2 b3 b4 b5 b6 b7, le_enc 8 t = [b0;b1;b2;b3;b4;b5;b6;b7].
Proof. cbn [le_enc]. repeat eexists. Qed.

Lemma repeat_S {A} (x:A) n : repeat x (S n) = x :: repeat x n. Proof. reflexivity. Qed.

(* meta::write produces the documented section for every payload size *)
Theorem meta_write_is_section p t : meta_write p (le_enc 8 t) = enc_section p t.
Proof.
  destruct (le_enc8 t) as (b0&b1&b2&b3&b4&b5&b6&b7&E).
  unfold enc_section, Layout.sec_slots, Layout.sec_a, Layout.sec_b, Layout.sec_got, Layout.chunk_pad, Layout.zeros.
  rewrite E. rewrite pre0_ff, pre1_ff || idtac.
  destruct p as [|[|[|[|n]]]].
  - reflexivity.
  - reflexivity.
  - reflexivity.
  - reflexivity.
  - unfold meta_write. rewrite pre0_ff, pre1_ff.
    assert (Q : Layout.q (S (S (S (S n)))) = 4) by (unfold Layout.q; lia).
    unfold Layout.ncont. rewrite Q. cbn [Layout.take_slots concat].
    replace (S (S (S (S n))) - 4) with n by lia.
    cbn [firstn skipn app Nat.add]. rewrite app_nil_r. reflexivity.
Qed.

(* meta::read computes the documented timestamp on slots of the right size *)
Theorem meta_read_is_read_ts p a b got :
  length a = p + 2 -> length b = p + 2 -> Forall (fun s => length s = p + 2) got -> length got = Meta.ncont p ->
  meta_read_ts p a b got = Layout.read_ts p a b got.
Proof.
  intros La Lb Lg Ng. unfold meta_read_ts, Layout.read_ts. f_equal.
  destruct p as [|[|[|[|n]]]]; cbn [Meta.ncont] in Ng.
  - (* p = 0: four continuation slots of 2 bytes *)
    destruct got as [|g0 [|g1 [|g2 [|g3 [|? ?]]]]]; try discriminate.
    inversion Lg as [|? ? L0 Lg1]; subst. inversion Lg1 as [|? ? L1 Lg2]; subst.
    inversion Lg2 as [|? ? L2 Lg3]; subst. inversion Lg3 as [|? ? L3 _]; subst.
    destruct a as [|a0 [|a1 [|? ?]]]; try discriminate. destruct b as [|c0 [|c1 [|? ?]]]; try discriminate.
    destruct g0 as [|x0 [|x1 [|? ?]]]; try discriminate. destruct g1 as [|y0 [|y1 [|? ?]]]; try discriminate.
    destruct g2 as [|z0 [|z1 [|? ?]]]; try discriminate. destruct g3 as [|w0 [|w1 [|? ?]]]; try discriminate.
    reflexivity.
  - destruct got as [|g0 [|g1 [|? ?]]]; try discriminate.
    inversion Lg as [|? ? L0 Lg1]; subst. inversion Lg1 as [|? ? L1 _]; subst.
    destruct a as [|a0 [|a1 [|a2 [|? ?]]]]; try discriminate. destruct b as [|c0 [|c1 [|c2 [|? ?]]]]; try discriminate.
    destruct g0 as [|x0 [|x1 [|x2 [|? ?]]]]; try discriminate. destruct g1 as [|y0 [|y1 [|y2 [|? ?]]]]; try discriminate.
    reflexivity.
  - destruct got as [|g0 [|? ?]]; try discriminate.
    inversion Lg as [|? ? L0 _]; subst.
    destruct a as [|a0 [|a1 [|a2 [|a3 [|? ?]]]]]; try discriminate. destruct b as [|c0 [|c1 [|c2 [|c3 [|? ?]]]]]; try discriminate.
    destruct g0 as [|x0 [|x1 [|x2 [|x3 [|? ?]]]]]; try discriminate.
    reflexivity.
  - destruct got as [|g0 [|? ?]]; try discriminate.
    inversion Lg as [|? ? L0 _]; subst.
    destruct a as [|a0 [|a1 [|a2 [|a3 [|a4 [|? ?]]]]]]; try discriminate. destruct b as [|c0 [|c1 [|c2 [|c3 [|c4 [|? ?]]]]]]; try discriminate.
    destruct g0 as [|x0 [|x1 [|x2 [|x3 [|x4 [|? ?]]]]]]; try discriminate.
    reflexivity.
  - destruct got; [|discriminate].
    unfold meta_read_bytes.
    assert (Q : Layout.q (S (S (S (S n)))) = 4) by (unfold Layout.q; lia). rewrite Q.
    cbn [concat]. rewrite app_nil_r.
    destruct a as [|a0 [|a1 [|a2 [|a3 [|a4 [|a5 ra]]]]]]; try (cbn in La; lia).
    destruct b as [|c0 [|c1 [|c2 [|c3 [|c4 [|c5 rb]]]]]]; try (cbn in Lb; lia).
    reflexivity.
Qed.
