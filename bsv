#!/usr/bin/env python3
"""bsv - the verification driver for dvdsk/byteseries (see DESIGN.md).

  bsv setup                                   build everything from files on disk
  bsv check <Cxx> [--tier quick|thorough] [--seed N]
  bsv replay <script>                         run one script on implementation, model and judge
"""
import sys, os, json, subprocess, time, shutil, hashlib, re, fcntl

ROOT = os.path.dirname(os.path.abspath(__file__))
sys.path.insert(0, os.path.join(ROOT, "tools"))
import gen  # noqa: E402
import plans  # noqa: E402
import literal  # noqa: E402

BUILD = os.path.join(ROOT, "build")
COQ = os.path.join(ROOT, "coq")
EXTRACT = os.path.join(BUILD, "extract")
TARGET = os.path.join(BUILD, "target" if os.environ.get("BSV_REPO", "/repo") == "/repo" else "target_alt")
BSDRIVE = os.path.join(TARGET, "debug", "bsdrive")
BSMODEL = os.path.join(EXTRACT, "bsmodel")
REPO = os.environ.get("BSV_REPO", "/repo")      # the tree that is checked; only the seeded-change sweeps set it (a scratch worktree)
EVIDENCE = os.environ.get("BSV_EVIDENCE", os.path.join(ROOT, "evidence"))
ENV = dict(os.environ, CARGO_NET_OFFLINE="true", CARGO_TARGET_DIR=TARGET, BS_REPO=REPO)
ALLOWED_AXIOMS = set()      # none: every property theorem must be closed under the global context
FORBIDDEN = re.compile(r"\b(Admitted|admit|Axiom|Axioms|Parameter|Parameters|Conjecture|Hypothesis|Variable|bypass_check|Unset\s+Guard|Unset\s+Positivity|Unset\s+Universe|type-in-type|impredicative-set|Admit\s+Obligations|native_compute)\b")

def sh(cmd, cwd=None, env=None, timeout=None, check=False):
    p = subprocess.run(cmd, cwd=cwd, env=env or ENV, shell=isinstance(cmd, str), stdout=subprocess.PIPE,
                       stderr=subprocess.STDOUT, text=True, timeout=timeout)
    if check and p.returncode != 0:
        raise RuntimeError("command failed (%d): %s\n%s" % (p.returncode, cmd, p.stdout[-4000:]))
    return p.returncode, p.stdout

class Lock:
    def __enter__(self):
        os.makedirs(BUILD, exist_ok=True)
        self.f = open(os.path.join(BUILD, ".lock"), "w")
        fcntl.flock(self.f, fcntl.LOCK_EX)
        return self
    def __exit__(self, *a):
        fcntl.flock(self.f, fcntl.LOCK_UN); self.f.close()

# ---------------------------------------------------------------- build steps
def translate():
    rc, out = sh([sys.executable, os.path.join(ROOT, "tools", "translate.py")])
    return rc == 0, out.strip()

def coq_build(clean=False):
    """full .vo build through coq_makefile; returns (ok, log)"""
    if not os.path.exists(os.path.join(COQ, "Makefile")) or clean:
        sh("coq_makefile -f _CoqProject -o Makefile", cwd=COQ)
    if clean:
        sh("make clean", cwd=COQ)
    os.makedirs(EXTRACT, exist_ok=True)
    if not os.path.exists(os.path.join(EXTRACT, "model.ml")):
        for ext in ("vo", "vos", "vok", "glob"):
            try: os.remove(os.path.join(COQ, "theories", "Extract." + ext))
            except FileNotFoundError: pass
    # -k: a broken obligation in one file must not hide what still holds elsewhere; whether a property is affected is
    # decided per property (coq_target_ok: does props/<id>.vo, i.e. everything in its dependency cone, still build?)
    rc, out = sh("timeout 3000 make -k -j16", cwd=COQ)
    return rc == 0, out

def coq_target_ok(pid):
    rc, out = sh("timeout 3000 make props/%s.vo" % pid, cwd=COQ)
    return rc == 0

def ocaml_build():
    src = os.path.join(ROOT, "extract", "driver.ml")
    stamp = os.path.join(EXTRACT, ".stamp")
    key = hashlib.sha256(open(src, "rb").read() + open(os.path.join(EXTRACT, "model.ml"), "rb").read()).hexdigest()
    if os.path.exists(BSMODEL) and os.path.exists(stamp) and open(stamp).read() == key:
        return True, "up to date"
    names = ["X%02x" % i for i in range(256)]
    with open(os.path.join(EXTRACT, "bytetab.ml"), "w") as f:
        f.write("open Model\nlet tab : byte array = [|" + ";".join(names) + "|]\nlet to_int (b:byte) : int = match b with\n"
                + "\n".join("| %s -> %d" % (n, i) for i, n in enumerate(names)) + "\n")
    shutil.copy(src, os.path.join(EXTRACT, "driver.ml"))
    rc, out = sh("ocamlfind ocamlopt -package str -linkpkg -O3 -w -a -o bsmodel model.mli model.ml bytetab.ml driver.ml", cwd=EXTRACT)
    if rc == 0:
        rc2, out2 = sh([BSMODEL, "--selftest"])
        if rc2 != 0:
            return False, out2
        open(stamp, "w").write(key)
    return rc == 0, out

def harness_build():
    h = os.path.join(ROOT, "harness")
    if REPO != "/repo":
        # same harness sources, dependency path pointed at the scratch tree
        h2 = os.path.join(BUILD, "harness_alt")
        os.makedirs(os.path.join(h2, "src"), exist_ok=True)
        for fn in os.listdir(os.path.join(h, "src")):
            shutil.copy(os.path.join(h, "src", fn), os.path.join(h2, "src", fn))
        toml = open(os.path.join(h, "Cargo.toml")).read().replace('path = "/repo"', 'path = "%s"' % REPO)
        if not os.path.exists(os.path.join(h2, "Cargo.toml")) or open(os.path.join(h2, "Cargo.toml")).read() != toml:
            open(os.path.join(h2, "Cargo.toml"), "w").write(toml)
        if os.path.exists(os.path.join(h, "Cargo.lock")) and not os.path.exists(os.path.join(h2, "Cargo.lock")):
            shutil.copy(os.path.join(h, "Cargo.lock"), os.path.join(h2, "Cargo.lock"))
        h = h2
    if not os.path.exists(os.path.join(h, "Cargo.lock")):
        shutil.copy(os.path.join(REPO, "Cargo.lock"), os.path.join(h, "Cargo.lock"))
    rc, out = sh("cargo build --offline", cwd=h)
    return rc == 0, out

def grep_forbidden():
    bad = []
    for d in ("theories", "props"):
        for fn in sorted(os.listdir(os.path.join(COQ, d))):
            if not fn.endswith(".v"):
                continue
            txt = open(os.path.join(COQ, d, fn)).read()
            txt = re.sub(r"\(\*.*?\*\)", "", txt, flags=re.S)
            for m in FORBIDDEN.finditer(txt):
                # Variable/Hypothesis are fine inside a Section
                if m.group(1) in ("Variable", "Hypothesis", "Parameter", "Parameters"):
                    before = txt[:m.start()]
                    if before.count("\nSection ") + before.count("\nSection\t") > before.count("\nEnd "):
                        continue
                bad.append("%s/%s: %s" % (d, fn, m.group(0)))
    return bad

def props_report(pid):
    """compile output of props/<pid>.v: theorems pinned and their assumptions"""
    pv = os.path.join(COQ, "props", pid + ".v")
    if not os.path.exists(pv):
        return None
    rc, out = sh("coqc -Q theories BS -Q gen BSgen -Q props BSprops props/%s.v" % pid, cwd=COQ)
    closed = out.count("Closed under the global context")
    axioms = re.findall(r"^Axioms:\s*\n((?:.+\n)+)", out, flags=re.M)
    theorems = re.findall(r"^\s*(?:Theorem|Lemma|Corollary|Example)\s+(\w+)", open(pv).read(), flags=re.M)
    return {"ok": rc == 0 and not axioms, "rc": rc, "closed": closed, "axioms": axioms, "theorems": theorems, "log": out[-3000:]}

def count_qed(pid):
    """Qed-closed statements in the dependency cone of props/<pid>.v"""
    pv = os.path.join(COQ, "props", pid + ".v")
    seen, todo = set(), [pv]
    n = 0
    while todo:
        f = todo.pop()
        if f in seen or not os.path.exists(f):
            continue
        seen.add(f)
        txt = open(f).read()
        n += len(re.findall(r"\bQed\.", txt))
        for stmt in re.findall(r"Require\s+(?:Import\s+|Export\s+)?(.*?)\.(?:\s|$)", txt, flags=re.S):
            for mod in stmt.split():
                if mod.startswith("BS."):
                    todo.append(os.path.join(COQ, "theories", mod[3:] + ".v"))
                elif mod.startswith("BSgen."):
                    todo.append(os.path.join(COQ, "gen", mod[6:] + ".v"))
                elif mod.startswith("BSprops."):
                    todo.append(os.path.join(COQ, "props", mod[8:] + ".v"))
    return n, sorted(os.path.relpath(f, COQ) for f in seen)

# ---------------------------------------------------------------- running histories
def write_script(path, hs):
    with open(path, "w") as f:
        for h in hs:
            f.write("history %s\n" % h["id"])
            f.write("\n".join(h["lines"]) + "\n")

def run_shard(args):
    """run implementation, model and judge on one shard; returns per-history records"""
    idx, hs, workdir, timeout_ms = args
    os.makedirs(workdir, exist_ok=True)
    script = os.path.join(workdir, "s%d.bs" % idx)
    impl = os.path.join(workdir, "s%d.impl" % idx)
    model = os.path.join(workdir, "s%d.model" % idx)
    judge = os.path.join(workdir, "s%d.judge" % idx)
    write_script(script, hs)
    # the model and the judge know a demanded header or "any": a builder on which both setters were called in a row demands
    # what the last call said (`hdr=any>HEX` = HEX, `hdr=HEX>any` = any); only the implementation sees the two calls
    script_m = script
    txt = open(script).read()
    if ">any" in txt or "any>" in txt or " p=any! " in txt or "! cb=" in txt:
        script_m = os.path.join(workdir, "s%d.m.bs" % idx)
        with open(script_m, "w") as f:
            f.write(re.sub(r" hdr=([0-9a-f-]+)>any\b", " hdr=any", re.sub(r" hdr=any>([0-9a-f-]+)", r" hdr=\1", re.sub(r"( caches=[0-9,]+)! ", r"\1 ", txt.replace(" p=any! ", " p=any ")))))
    # implementation; restart after a hang (exit 3) at the next history
    start = 0
    hangs = []
    with open(impl, "w") as out:
        while True:
            p = subprocess.run([BSDRIVE, script, "--workdir", os.path.join(workdir, "w%d" % idx), "--op-timeout-ms", str(timeout_ms),
                                "--start-history", str(start)], stdout=out, stderr=subprocess.PIPE, text=True)
            if p.returncode == 3:
                m = re.search(r"HANG history=(-?\d+)", p.stderr)
                k = int(m.group(1)) if m else start
                hangs.append(k)
                start = k + 1
                out.flush()
                if start >= len(hs):
                    break
                continue
            break
    cmd = "ulimit -s unlimited 2>/dev/null; exec %s %s --impl %s --model-out %s --judge-out %s" % (BSMODEL, script_m, impl, model, judge)
    p = subprocess.run(["bash", "-c", cmd], stdout=subprocess.PIPE, stderr=subprocess.PIPE, text=True)
    merr = p.stderr.strip() if p.returncode != 0 else ""
    return collect(hs, script, impl, model, judge, hangs, merr)

def split_hist(path):
    """lines of a result file grouped per history"""
    groups, cur = [], None
    if not os.path.exists(path):
        return groups
    for l in open(path):
        l = l.rstrip("\n")
        if l.startswith("H "):
            cur = []; groups.append(cur)
        elif cur is not None:
            cur.append(l)
    return groups

def _in_bounds(ts, lo, hi):
    if lo[0] == "i" and ts < int(lo[1:]): return False
    if lo[0] == "e" and ts <= int(lo[1:]): return False
    if hi[0] == "i" and ts > int(hi[1:]): return False
    if hi[0] == "e" and ts >= int(hi[1:]): return False
    return True

def _means_fit(items, outs, n, p):
    """C10 read literally: are `outs` the means of consecutive buckets of one size b >= 1 over `items` (the library's own full read of
    the range), the first starting at the first line, only a trailing incomplete bucket dropped, at most 2n of them? Timestamps: floor of
    the mean; payload: the harness resampler (bytes from 128 on lose their lowest bit, byte-wise floor of the mean)."""
    k, m = len(items), len(outs)
    if m > 2 * n:
        return False
    if m == 0:
        return True                       # a bucket size above the number of lines: nothing but an incomplete bucket
    if k == 0 or m > k:
        return False
    ts = [int(x.split(":")[0]) for x in items]
    pay = [[] if x.split(":")[1] == "-" else list(bytes.fromhex(x.split(":")[1])) for x in items]
    dec = [[(v if v < 128 else v & ~1) for v in q] for q in pay]
    pt = [0]
    for v in ts: pt.append(pt[-1] + v)
    pp = [[0] * (k + 1) for _ in range(p)]
    for q in range(p):
        for i2 in range(k):
            pp[q][i2 + 1] = pp[q][i2] + (dec[i2][q] if q < len(dec[i2]) else 0)
    ots = [int(x.split(":")[0]) for x in outs]
    opay = [[] if x.split(":")[1] == "-" else list(bytes.fromhex(x.split(":")[1])) for x in outs]
    for b in range(max(1, k // (m + 1)), k // m + 1):
        if k // b != m or (pt[b] - pt[0]) // b != ots[0]:
            continue
        good = True
        for j2 in range(m):
            lo2, hi2 = j2 * b, (j2 + 1) * b
            if (pt[hi2] - pt[lo2]) // b != ots[j2] or any(((pp[q][hi2] - pp[q][lo2]) // b) % 256 != (opay[j2][q] if q < len(opay[j2]) else -1) for q in range(p)):
                good = False; break
        if good:
            return True
    return False

def collect(hs, script, impl, model, judge, hangs, merr):
    gi, gm, gj = split_hist(impl), split_hist(model), split_hist(judge)
    recs = []
    for k, h in enumerate(hs):
        ri = [l for l in (gi[k] if k < len(gi) else []) if l.startswith("R ")]
        rm = [l for l in (gm[k] if k < len(gm) else []) if l.startswith("R ")]
        rj = gj[k] if k < len(gj) else []
        ops = [l for l in h["lines"] if l and not l.startswith("#")]
        rec = {"h": h, "disagree": None, "disagreements": [], "judge_fail": None, "panic_hang": [], "undet": False, "nops": len(ops),
               "judged": sum(1 for l in rj if l.endswith(" ok")), "classes": {}, "judge_fails": [], "model_error": merr if (merr and k >= len(gm) - 1) else ""}
        stop = False
        first_bad = None        # first op at which the implementation panicked or hung: the harness drops the handle there
        for j, op in enumerate(ops):
            a = ri[j] if j < len(ri) else None
            b = rm[j] if j < len(rm) else None
            if a is None:
                break
            res = a[2:].split(" | ")[0]
            if res.split()[0] in ("panic", "hang") or " panic" in res or " hang" in res:
                rec["panic_hang"].append((j, op, res))
                if first_bad is None: first_bad = j
            if b is not None and not stop and a != b:
                d = {"op_index": j, "op": op, "impl": a[:600], "model": b[:600], "what": plans.disagreement_what(op, a, b)}
                rec["disagreements"].append(d)
                if rec["disagree"] is None:
                    rec["disagree"] = d
                # what follows a disagreement on a state-changing operation or on a file is a consequence of it
                if plans.opkind(op) not in plans.PURE_OPS or d["what"].startswith("file"):
                    stop = True
            if res in ("panic", "hang"):
                stop = True         # after a panic/hang only the judge's verdict counts
        rec["first_bad"] = first_bad
        # distribution of what was run: operation kinds and result classes of the implementation (for the evidence)
        hist_o, hist_r = {}, {}
        for j, op in enumerate(ops):
            if j >= len(ri):
                break
            ko2 = op.split()[0]
            hist_o[ko2] = hist_o.get(ko2, 0) + 1
            r0 = ri[j][2:].split(" | ")[0].split()
            rc = (r0[0] + (" " + r0[1] if r0[0] == "err" and len(r0) > 1 else "")) if r0 else "?"
            hist_r[rc] = hist_r.get(rc, 0) + 1
        rec["hist_ops"], rec["hist_res"] = hist_o, hist_r
        rec["classes"] = {}
        for l in rj:
            m = re.match(r"J (\d+) class (\d+)", l)
            if m:
                rec["classes"][int(m.group(1)) - 1] = int(m.group(2))
            if " FAIL " in l:
                m = re.match(r"J (\d+) FAIL (.*)", l)
                j = int(m.group(1)) - 1
                jf = {"op_index": j, "op": ops[j] if j < len(ops) else "?", "what": m.group(2)[:700]}
                if first_bad is not None and j > first_bad and jf["what"].endswith("got err NoHandle"):
                    continue        # the handle was dropped after the panic/hang at op first_bad: a consequence, not another failure
                rec["judge_fails"].append(jf)
                if rec["judge_fail"] is None:
                    rec["judge_fail"] = jf
            if l.endswith(" undet"):
                rec["undet"] = True
        # C12 read literally: what the accessors report must equal what a full read of the same handle shows. Checked on
        # the implementation's own answers (independent of model and judge state): after `read_all u u` answered with lines,
        # the accessor calls that follow - until the next operation that can change the series - must agree with it.
        shown = None
        failed_ops = {jf["op_index"] for jf in rec["judge_fails"]}
        for j, op in enumerate(ops):
            a = ri[j] if j < len(ri) else None
            if a is None:
                break
            res = a[2:].split(" | ")[0].strip()
            ko = plans.opkind(op)
            if op == "read_all u u":
                t = res.split()
                shown = t[2:] if (len(t) >= 2 and t[0] == "ok" and t[1].isdigit() and int(t[1]) == len(t) - 2) else None
                continue
            if ko not in plans.PURE_OPS:
                shown = None
                continue
            if shown is None or j in failed_ops or not res.startswith("ok"):
                continue
            want = None
            if ko == "len": want = "ok %d" % len(shown)
            elif ko == "is_empty": want = "ok %d" % (1 if not shown else 0)
            elif ko == "range" and shown: want = "ok %s %s" % (shown[0].split(":")[0], shown[-1].split(":")[0])
            elif ko == "last_line" and shown: want = "ok %s" % shown[-1]
            if want is not None and res != want:
                jf = {"op_index": j, "op": op, "what": "result %s :: got %s :: but the full read just before showed %d lines%s" %
                      (op, res, len(shown), (" from %s to %s" % (shown[0], shown[-1])) if shown else ""), "consistency": True}
                rec["judge_fails"].append(jf)
                if rec["judge_fail"] is None:
                    rec["judge_fail"] = jf
        # C04 read literally: "a reopened series reports the same contents, length, time range, last line, payload size and user
        # header as before it was closed". For every `close` directly followed by an `open` of the same name that succeeds
        # (nothing touched the files in between), the answers of the implementation to the read-only calls issued between the
        # last operation that can change the series (a push counts, accepted or not) and the close are compared with its answers
        # to the same calls after the open. The implementation against itself: no model, no judge.
        j = 0
        while j < len(ops) and j < len(ri):
            if ops[j] == "close" and j + 1 < len(ops) and j + 1 < len(ri) and ops[j + 1].split()[0] == "open" and ri[j + 1][2:].startswith("ok"):
                before = {}
                q = j - 1
                while q >= 0 and plans.opkind(ops[q]) in plans.PURE_OPS:
                    before.setdefault(ops[q], (q, ri[q][2:].split(" | ")[0].strip()))
                    q -= 1
                opened_name = ops[j + 1].split()[1]
                same = q >= 0 and any(ops[x].split()[0] in ("new", "open") and ops[x].split()[1] == opened_name and
                                      not any(ops[y] == "close" for y in range(x + 1, j)) for x in range(q + 1))
                q = j + 2
                while same and q < len(ops) and q < len(ri) and plans.opkind(ops[q]) in plans.PURE_OPS:
                    if ops[q] in before and q not in failed_ops and before[ops[q]][0] not in failed_ops:
                        was, now = before[ops[q]][1], ri[q][2:].split(" | ")[0].strip()
                        if was != now and was.startswith("ok") and "panic" not in now and "hang" not in now:
                            jf = {"op_index": q, "op": ops[q], "what": "result %s :: got %s :: but the same call just before the clean close (op %d) answered %s"
                                  % (ops[q], now[:200], before[ops[q]][0] + 1, was[:200]), "props": ["C04"], "consistency": True}
                            rec["judge_fails"].append(jf)
                            if rec["judge_fail"] is None:
                                rec["judge_fail"] = jf
                            break
                    q += 1
            j += 1
        # C13 / C14 read literally. Both are stated against "a full read of that range": for a `read_all lo hi` that answered
        # with lines and a `read_first_n n lo hi` / `n_lines lo hi` with the same bounds on the same state (no call that can change
        # the series in between), the implementation's own answers must fit: the first n lines are the prefix of the full read;
        # the count is zero (or an error) exactly when the full read is empty, at least the number of lines read, and - for a
        # series this history created and no fault operation touched, whose sections follow from the accepted appends by the
        # 65534 rule - above it by at most K slots for every section from the one holding the first line read to the one
        # holding the last.
        order, touched13, fullr, cname, cp, ccaches = {}, set(), {}, None, None, False
        for j, op in enumerate(ops):
            a = ri[j] if j < len(ri) else None
            if a is None:
                break
            res = a[2:].split(" | ")[0].strip()
            t = op.split()
            ko = t[0]
            lit = None
            if ko in ("new", "open"):
                fullr, cname, cp = {}, None, None
                m = re.match(r"ok p=(\d+)", res)
                if m:
                    cname, cp = t[1], int(m.group(1))
                    ccaches = "caches=-" not in op
                    if ko == "new":
                        order[cname] = []; touched13.discard(cname)
            elif ko == "close":
                cname, fullr = None, {}
            elif ko.startswith("fs_"):
                touched13.add((t[2] if ko == "fs_asset" and len(t) > 2 else t[1].split(":")[1] if len(t) > 1 and ":" in t[1] else ""))
            elif ko == "push":
                fullr = {}
                if cname and res == "ok":
                    order.setdefault(cname, []).append(int(t[1]))
            elif ko == "pushseq":
                fullr = {}
                m = re.match(r"(?:ok|stop) (\d+)", res)
                if m and cname:
                    order.setdefault(cname, []).extend(int(t[1]) + i2 * int(t[2]) for i2 in range(int(m.group(1))))
            elif ko == "read_all" and cname:
                rt = res.split()
                if len(rt) >= 2 and rt[0] == "ok" and rt[1].isdigit() and int(rt[1]) == len(rt) - 2:
                    fullr[(t[1], t[2])] = rt[2:]          # also when the judge rejected it: C13 and C14 speak of the library's own full read
                else:
                    fullr.pop((t[1], t[2]), None)
                # C02 read literally: a bounded read returns exactly the lines of the full read (of the same state) whose timestamps
                # lie inside the bounds - for a series no fault operation touched
                if (t[1], t[2]) != ("u", "u") and ("u", "u") in fullr and cname not in touched13 and "panic" not in res and "hang" not in res:
                    rec["literal_reads"] = rec.get("literal_reads", 0) + 1
                    want = [x for x in fullr[("u", "u")] if _in_bounds(int(x.split(":")[0]), t[1], t[2])]
                    got = fullr.get((t[1], t[2]))
                    if (got is not None and got != want) or (got is None and want and rt[:1] == ["err"]):
                        lit = ("C02", "result %s :: got %s :: but of the %d lines the full read of the same state returned, %d lie inside these bounds%s" %
                               (op, res[:160], len(fullr[("u", "u")]), len(want), (": " + " ".join(want[:3])) if want else ""))
            elif ko == "read_first_n" and cname and (t[2], t[3]) in fullr and t[1].isdigit() and int(t[1]) >= 1:
                items = fullr[(t[2], t[3])]
                rec["literal_reads"] = rec.get("literal_reads", 0) + 1
                want = items[:min(int(t[1]), len(items))]
                rt = res.split()
                if items and not (rt[:1] == ["ok"] and rt[2:] == want) and "panic" not in res and "hang" not in res:
                    lit = ("C13", "result %s :: got %s :: but the full read of the same range just before returned %d lines beginning %s" % (op, res[:200], len(items), " ".join(items[:3])))
            elif ko == "n_lines" and cname and (t[1], t[2]) in fullr:
                items = fullr[(t[1], t[2])]
                rec["literal_reads"] = rec.get("literal_reads", 0) + 1
                rt = res.split()
                if rt[:1] == ["ok"] and len(rt) == 2 and rt[1].isdigit():
                    c = int(rt[1])
                    if not items and c != 0:
                        lit = ("C14", "result %s :: got %s :: but the full read of the same range just before returned no line" % (op, res))
                    elif items and c < len(items):
                        lit = ("C14", "result %s :: got %s :: fewer than the %d lines the full read of the same range just before returned" % (op, res, len(items)))
                    elif items and cname in order and cname not in touched13 and cp is not None:
                        sec, fl, k2 = {}, None, -1
                        for ts2 in order[cname]:
                            if fl is None or ts2 - fl > 65534:
                                fl = ts2; k2 += 1
                            sec[ts2] = k2
                        f0, f1 = int(items[0].split(":")[0]), int(items[-1].split(":")[0])
                        if f0 in sec and f1 in sec and c > len(items) + gen.K(cp) * (sec[f1] - sec[f0] + 1):
                            lit = ("C14", "result %s :: got %s :: the full read of the same range just before returned %d lines from section %d to section %d of the series: at most %d slots may be counted" %
                                   (op, res, len(items), sec[f0], sec[f1], len(items) + gen.K(cp) * (sec[f1] - sec[f0] + 1)))
                elif rt[:1] == ["err"] and items:
                    lit = ("C14", "result %s :: got %s :: but the full read of the same range just before returned %d lines" % (op, res, len(items)))
            elif ko == "read_n" and cname and not ccaches and cp is not None and (t[2], t[3]) in fullr and t[1].isdigit() and int(t[1]) >= 1:
                # C10 read literally: without cache levels a resampling read returns bucket means of exactly the lines the full read of
                # that range returns
                rt = res.split()
                items = fullr[(t[2], t[3])]
                rec["literal_reads"] = rec.get("literal_reads", 0) + 1
                if rt[:1] == ["ok"] and len(rt) >= 2 and rt[1].isdigit() and int(rt[1]) == len(rt) - 2:
                    if not _means_fit(items, rt[2:], int(t[1]), cp):
                        lit = ("C10", "result %s :: got %s :: not the means of equal consecutive buckets (at most %d) of the %d lines the full read of the same range just before returned" %
                               (op, res[:160], 2 * int(t[1]), len(items)))
                elif rt[:1] == ["err"] and len(items) >= int(t[1]):
                    lit = ("C10", "result %s :: got %s :: but the full read of the same range just before returned %d lines" % (op, res, len(items)))
            if lit:
                jf = {"op_index": j, "op": op, "what": lit[1], "props": [lit[0]], "consistency": True}
                rec["judge_fails"].append(jf)
                if rec["judge_fail"] is None:
                    rec["judge_fail"] = jf
        # C01 / C18 read literally: a read never returns a line nobody appended ("nothing added", "never a line with a fabricated
        # timestamp"). For a series whose content comes from appends of this history only (no foreign bytes were put into its
        # data file), every (timestamp, payload) a full, bounded or first-n read returns must be one an accepted append wrote -
        # whatever was torn or damaged in between. Computed from the script and the implementation's answers alone.
        genuine, foreign, cur_name, cur_p = {}, set(), None, None
        for j, op in enumerate(ops):
            a = ri[j] if j < len(ri) else None
            if a is None:
                break
            res = a[2:].split(" | ")[0].strip()
            t = op.split()
            ko = t[0]
            if ko in ("new", "open"):
                cur_name, cur_p = None, None
                m = re.match(r"ok p=(\d+)", res)
                if m:
                    cur_name, cur_p = t[1], int(m.group(1))
                    if ko == "new":
                        genuine[cur_name] = set(); foreign.discard(cur_name)
            elif ko == "close":
                cur_name = None
            elif ko in ("fs_append", "fs_write", "fs_trunc", "fs_asset") and len(t) > 1:
                f = t[1]
                if ko == "fs_asset":
                    foreign.add(t[2] if len(t) > 2 else "")
                elif f.startswith("data:"):
                    foreign.add(f.split(":")[1])
            elif ko == "push" and cur_name and res == "ok":
                genuine.setdefault(cur_name, set()).add((int(t[1]), "" if t[2] == "-" else t[2]))
            elif ko == "pushseq" and cur_name and cur_p is not None:
                m = re.match(r"(?:ok|stop) (\d+)", res)
                if m:
                    ts0, step, seed = int(t[1]), int(t[2]), int(t[4])
                    for i2 in range(int(m.group(1))):
                        genuine.setdefault(cur_name, set()).add((ts0 + i2 * step, bytes((seed + 131 * i2 + 71 * q) % 256 for q in range(cur_p)).hex()))
            elif ko in ("read_all", "read_first_n") and cur_name and cur_name in genuine and cur_name not in foreign and j not in failed_ops:
                rt = res.split()
                if len(rt) >= 2 and rt[0] == "ok" and rt[1].isdigit():
                    for item in rt[2:]:
                        tsx, _, payx = item.partition(":")
                        if tsx.isdigit() and (int(tsx), "" if payx == "-" else payx) not in genuine[cur_name]:
                            jf = {"op_index": j, "op": op, "what": "result %s :: returned the line %s that no accepted append of this history wrote" % (op, item),
                                  "props": ["C18"] if plans.context(rec, j)["corrupt"] else (["C05", "C01"] if plans.context(rec, j)["torn"] else ["C01", "C02", "C13"]),
                                  "consistency": True}
                            rec["judge_fails"].append(jf)
                            if rec["judge_fail"] is None:
                                rec["judge_fail"] = jf
                            break
        # C06 / C15 read literally on the bytes of a `dump` (tools/literal.py): a series that was created or opened with
        # success, closed normally, and whose files no fault operation touched since; C15 only for a series this history
        # created and never touched at all (a foreign file need not be canonical)
        glines = gi[k] if k < len(gi) else []
        dumps, cur, nr = {}, None, -1
        for l in glines:
            if l.startswith("R "):
                nr += 1; cur = nr
            elif l.startswith("D ") and cur is not None:
                t = l.split(" ")
                if len(t) >= 3:
                    try:
                        dumps.setdefault(cur, {})[t[1]] = b"" if t[2] == "-" else bytes.fromhex(t[2])
                    except ValueError:
                        pass
        clean, created, touched, openname, closed_ok = set(), set(), set(), None, None
        for j, op in enumerate(ops):
            a = ri[j] if j < len(ri) else None
            if a is None:
                break
            res = a[2:].split(" | ")[0].strip()
            kk = plans.opkind(op)
            if kk in ("new", "open"):
                nm = op.split()[1]
                openname, closed_ok = (nm if res.startswith("ok") else None), None
                if res.startswith("ok"):
                    clean.add(nm)
                    if kk == "new": created.add(nm); touched.discard(nm)
                else:
                    clean.discard(nm)
            elif kk == "close":
                closed_ok = openname if (res == "ok" and openname) else None
                openname = None
            elif kk.startswith("fs_") and kk != "fs_asset":
                f = op.split()[1]
                nm = f.split(":")[1] if ":" in f else f
                clean.discard(nm); touched.add(nm); closed_ok = None
            elif kk == "dump" and j in dumps and closed_ok and closed_ok in clean and (first_bad is None):
                rec["literal_checked"] = rec.get("literal_checked", 0) + 1
                for prop, text in literal.check_series(closed_ok, dumps[j], closed_ok in created and closed_ok not in touched):
                    jf = {"op_index": j, "op": op, "what": text, "props": [prop], "consistency": True}
                    rec["judge_fails"].append(jf)
                    if rec["judge_fail"] is None:
                        rec["judge_fail"] = jf
        recs.append(rec)
    return recs

def run_histories(hs, tag, timeout_ms=10000, shards=16):
    from multiprocessing.pool import ThreadPool
    workdir = os.path.join(BUILD, "run", "%s-%d" % (tag, os.getpid()))
    shutil.rmtree(workdir, ignore_errors=True)
    os.makedirs(workdir)
    # big histories first, round robin
    order = sorted(range(len(hs)), key=lambda i: -len(hs[i]["lines"]) - (5000 if "big" in hs[i]["tags"] or "asset" in hs[i]["tags"] else 0))
    buckets = [[] for _ in range(min(shards, max(1, len(hs))))]
    for n, i in enumerate(order):
        buckets[n % len(buckets)].append(hs[i])
    with ThreadPool(len(buckets)) as pool:
        res = pool.map(run_shard, [(i, b, workdir, timeout_ms) for i, b in enumerate(buckets)])
    if not os.environ.get("BSV_KEEP"):
        shutil.rmtree(workdir, ignore_errors=True)
    return [r for rs in res for r in rs]

# ---------------------------------------------------------------- known findings
def level_text(pid):
    """what is proved for this property and what is only judged (from MANIFEST.json, written by tools/mkmanifest.py)"""
    try:
        m = json.load(open(os.path.join(ROOT, "MANIFEST.json")))
        return [c["level_claimed"]["text"] for c in m["checks"] if c["property_id"] == pid][0]
    except Exception:
        return ""

def load_known():
    p = os.path.join(ROOT, "known_findings.json")
    return json.load(open(p)) if os.path.exists(p) else {"findings": [], "fixed": []}

def classify(pid, rec, known):
    """returns the id of the listed known finding this judge failure belongs to, or None"""
    jf = rec["judge_fail"]
    # The model mirrors the unchanged library bug for bug, the listed findings included. A failure in the class of a listed
    # finding is that finding only if the model fails the same way: where the implementation has already parted from the model
    # (at this operation or before it in the same history) it is a different failure that merely lies in the same region.
    if any(d["op_index"] <= jf["op_index"] for d in rec.get("disagreements", [])):
        d = [d for d in rec["disagreements"] if d["op_index"] <= jf["op_index"]][0]
        for k in known["findings"]:
            if pid in k["properties"] and plans.known_match(k, rec, jf):
                jf["beyond_known"] = "in the region of the known finding %s, but not that finding: the model of the unchanged library answers op %d `%s` with %s" % (
                    k["id"], d["op_index"], d["op"][:80], d["model"][:200])
        return None
    for k in known["findings"]:
        if pid not in k["properties"]:
            continue
        if plans.known_match(k, rec, jf):
            return k
    return None

# ---------------------------------------------------------------- check
def check(pid, tier, seed):
    t0 = time.time()
    os.makedirs(EVIDENCE, exist_ok=True)
    os.makedirs(os.path.join(BUILD, "replay"), exist_ok=True)
    plan = plans.PLANS[pid]
    ev = {"property_id": pid, "tier": tier, "seed": seed, "level": "proof", "coverage": {}, "assumptions": [], "wall_s": 0, "violations": 0}
    problems = []          # (kind, text): broken proof obligations / correspondence
    with Lock():
        ok, tlog = translate()
        if not ok:
            # a part of the source the translators no longer recognise counts for the properties whose theorems depend on
            # the file generated from it (Consts / HeaderText: every property)
            m = re.search(r"^translate-broken: (.*)$", tlog, flags=re.M)
            parts = m.group(1).split(",") if m else ["Consts"]
            cone_files = count_qed(pid)[1]
            hit = [x for x in parts if x == "Consts" or ("gen/%s.v" % x) in cone_files]
            if hit:
                problems.append(("tie1", tlog))
        ok_all, log = coq_build(clean=(tier == "thorough" and os.environ.get("BSV_NO_CLEAN") != "1"))
        ok = ok_all or coq_target_ok(pid)
        if not ok:
            err = "\n".join(l for l in log.splitlines() if "Error" in l or "rror:" in l or l.startswith("File "))[-1500:]
            problems.append(("proof", "props/%s.v or a file it depends on no longer builds: " % pid + err))
        ok2, olog = (ocaml_build() if os.path.exists(os.path.join(EXTRACT, "model.ml")) else (False, "no extracted model"))
        if not ok2:
            problems.append(("extract", olog[-800:]))
        ok3, hlog = harness_build()
        if not ok3:
            print("harness does not build against /repo:\n" + hlog[-2000:])
            problems.append(("harness", hlog[-800:]))
        pr = props_report(pid) if ok else None
        forb = grep_forbidden()
    if forb:
        problems.append(("proof", "forbidden vernacular: " + "; ".join(forb)))
    if pr is not None and not pr["ok"]:
        problems.append(("proof", "props/%s.v: rc=%d axioms=%s %s" % (pid, pr["rc"], pr["axioms"], pr["log"][-500:] if pr["rc"] else "")))
    nqed, cone = count_qed(pid)
    coqchk = None
    if tier == "thorough" and ok and os.environ.get("BSV_NO_COQCHK") != "1":
        rc, out = sh("timeout 1500 coqchk -silent -o -Q theories BS -Q gen BSgen -Q props BSprops BSprops.%s" % pid, cwd=COQ)
        coqchk = {"rc": rc, "tail": out[-600:]}
        if rc != 0:
            problems.append(("proof", "coqchk failed: " + out[-400:]))

    # histories: corpus first, then generated
    recs = []
    hs = []
    if ok2 and ok3:
        hs = plans.corpus_histories(pid, ROOT) + gen.generate(plan[tier], tier, seed)
        recs = run_histories(hs, pid, timeout_ms=plan.get("op_timeout_ms", 10000))
    known = load_known()
    violations, known_hits, disagreements = [], {}, []
    for r in recs:
        fails = [jf for jf in r["judge_fails"] if plans.relevant(pid, r, jf)]
        if plan.get("totality"):
            for (j, op, res) in r["panic_hang"]:
                if not r["judge_fail"] or r["judge_fail"]["op_index"] != j:
                    fails.append({"op_index": j, "op": op, "what": "result " + op + " :: got " + res})
        for f in fails[:1]:
            r2 = dict(r, judge_fail=f)
            k = classify(pid, r2, known)
            if k:
                known_hits.setdefault(k["id"], []).append(r2)
            else:
                violations.append(r2)
        rel = [d for d in r["disagreements"] if plans.relevant_disagreement(pid, r, d)]
        if rel:
            disagreements.append(dict(r, disagree=rel[0]))
        if r["model_error"]:
            problems.append(("model", "model driver failed on %s: %s" % (r["h"]["id"], r["model_error"][:300])))

    # focused search: proof/correspondence broken but no failing input yet
    searched = 0
    if not violations and (problems or disagreements) and ok2 and ok3:
        budget = 60 if tier == "quick" else 600
        t1 = time.time()
        fams = sorted({r["h"]["family"] for r in disagreements}) or [f for f, _ in plan[tier]]
        rnd = 0
        while time.time() - t1 < budget and not violations:
            rnd += 1
            extra = gen.generate([(f, 40) for f in fams], tier, seed * 1000 + rnd)
            searched += len(extra)
            for r in run_histories(extra, pid + "-search", timeout_ms=plan.get("op_timeout_ms", 10000)):
                rel = [jf for jf in r["judge_fails"] if plans.relevant(pid, r, jf)]
                if rel and not classify(pid, dict(r, judge_fail=rel[0]), known):
                    violations.append(dict(r, judge_fail=rel[0])); break

    # verdict
    exit_code = 0
    for kid, rs in sorted(known_hits.items()):
        k = [x for x in known["findings"] if x["id"] == kid][0]
        print("KNOWN-FINDING: property=%s %s %s (%d histories, e.g. %s: %s)" % (pid, kid, k["what"], len(rs), rs[0]["h"]["id"], rs[0]["judge_fail"]["what"][:160]))
    if violations:
        v = violations[0]
        path = os.path.join(BUILD, "replay", "%s-%d.bs" % (pid, seed))
        with open(path, "w") as f:
            by = ("the literal reading of the property on the implementation's own answers and files (bsv collect, tools/literal.py)"
                  if v["judge_fail"].get("consistency") else "the judge (Layer S/F) on the implementation")
            f.write("# VIOLATION of %s found by %s\n# history %s, op %d: %s\n# %s\n" %
                    (pid, by, v["h"]["id"], v["judge_fail"]["op_index"], v["judge_fail"]["op"], v["judge_fail"]["what"]))
            if v["judge_fail"].get("beyond_known"):
                f.write("# %s\n" % v["judge_fail"]["beyond_known"])
            f.write("# replay: /verif/bsv replay %s\n" % path)
            f.write("history %s\n" % v["h"]["id"] + "\n".join(v["h"]["lines"]) + "\n")
        print("VIOLATION property=%s replay=%s" % (pid, path))
        exit_code = 1
    elif problems or disagreements:
        path = os.path.join(BUILD, "replay", "%s-%d.broken.txt" % (pid, seed))
        with open(path, "w") as f:
            f.write("# %s is no longer shown to hold: a proof obligation or the model/implementation correspondence broke,\n# and the focused search (%d more histories) found no input on which the property fails.\n" % (pid, searched))
            for kind, text in problems:
                f.write("broken %s: %s\n" % (kind, text))
            for r in disagreements[:5]:
                d = r["disagree"]
                f.write("correspondence: history %s op %d `%s`\n  implementation: %s\n  model:          %s\n" % (r["h"]["id"], d["op_index"], d["op"], d["impl"], d["model"]))
                f.write("history %s\n" % r["h"]["id"] + "\n".join(r["h"]["lines"]) + "\n")
        print("VIOLATION property=%s replay=%s no-failing-input-found" % (pid, path))
        exit_code = 1

    # evidence
    fams = {}
    for r in recs:
        fams[r["h"]["family"]] = fams.get(r["h"]["family"], 0) + 1
    distinct = len({hashlib.sha1("\n".join(r["h"]["lines"]).encode()).hexdigest() for r in recs
                    if r["judged"] >= 2 and any(l.startswith(("push", "pushseq", "fs_")) for l in r["h"]["lines"])})
    sample = [r["h"]["lines"][:25] for r in recs[:2]]
    ev["coverage"] = {
        "obligations": nqed, "discharged": nqed if not [p for p in problems if p[0] == "proof"] else 0,
        "checker_cmd": "cd /verif/coq && make (coqc 8.16.1, full .vo build) ; coqc props/%s.v ; Print Assumptions under every property theorem" % pid + ("; coqchk -o" if coqchk else ""),
        "trusted_base": plans.TRUSTED_BASE,
        "proof_files": cone,
        "property_theorems": pr["theorems"] if pr else [],
        "assumptions_closed": pr["closed"] if pr else 0,
        "coqchk": coqchk,
        "evaluations": len(recs) + searched,
        "distinct_nontrivial": distinct,
        "rule": "histories generated by tools/gen.py families %s (seed %d) plus the corpus; each is run on the real library (bsdrive) and on the extracted Coq model, every result and every file hash compared, and judged by the extracted Layer S/F specification; non-trivial = at least one state-changing op and at least two ops judged; distinct by script text" % (sorted(fams), seed),
        "families": fams,
        "ops_run": sum(r["nops"] for r in recs), "ops_judged": sum(r["judged"] for r in recs),
        "histories_undetermined": sum(1 for r in recs if r["undet"]),
        "literal_file_checks": sum(r.get("literal_checked", 0) for r in recs),
        "literal_read_checks": sum(r.get("literal_reads", 0) for r in recs),
        "operations_by_kind": {k: sum(r.get("hist_ops", {}).get(k, 0) for r in recs) for k in sorted({k for r in recs for k in r.get("hist_ops", {})})},
        "results_by_class": {k: sum(r.get("hist_res", {}).get(k, 0) for r in recs) for k in sorted({k for r in recs for k in r.get("hist_res", {})})},
        "history_lengths": {"min": min([r["nops"] for r in recs] or [0]), "max": max([r["nops"] for r in recs] or [0]),
                            "mean": round(sum(r["nops"] for r in recs) / max(1, len(recs)), 1)},
        "generator_errors": list(gen.GEN_ERRORS)[:20],
        "correspondence_disagreements": len(disagreements),
        "known_findings_hit": {k: len(v) for k, v in known_hits.items()},
        "broken": [list(p) for p in problems],
        "samples": sample,
        "translate": tlog,
        "proved_and_not_proved": level_text(pid),
    }
    ev["assumptions"] = plans.ASSUMPTIONS
    ev["violations"] = len(violations) + (1 if exit_code and not violations else 0)
    ev["wall_s"] = round(time.time() - t0, 1)
    with open(os.path.join(EVIDENCE, pid + ".json"), "w") as f:
        json.dump(ev, f, indent=1)
    print("%s %s: %d histories (%d ops, %d judged), %d disagreements, %d violations, known %s, proof obligations %d, %.0fs" %
          (pid, tier, len(recs), ev["coverage"]["ops_run"], ev["coverage"]["ops_judged"], len(disagreements), len(violations),
           {k: len(v) for k, v in known_hits.items()}, nqed, ev["wall_s"]))
    return exit_code

def setup():
    with Lock():
        ok, t = translate(); print(t)
        ok1, log = coq_build()
        print("coq:", "ok" if ok1 else log[-3000:])
        ok2, log = ocaml_build() if ok1 else (False, "skipped")
        print("ocaml:", "ok" if ok2 else log[-2000:])
        ok3, log = harness_build()
        print("harness:", "ok" if ok3 else log[-2000:])
    return 0 if (ok and ok1 and ok2 and ok3) else 1

def replay(path):
    with Lock():
        translate(); coq_build(); ocaml_build(); harness_build()
    lines = [l.rstrip("\n") for l in open(path) if l.strip() and not l.startswith("#")]
    hs, cur = [], None
    for l in lines:
        if l.startswith("history "):
            cur = {"id": l.split()[1], "family": "replay", "lines": [], "tags": set()}; hs.append(cur)
        else:
            if cur is None:
                cur = {"id": "replay", "family": "replay", "lines": [], "tags": set()}; hs.append(cur)
            cur["lines"].append(l)
    rc = 0
    for r in run_histories(hs, "replay", shards=1):
        print("history %s: %d ops" % (r["h"]["id"], r["nops"]))
        if r["judge_fail"]:
            print("  judge: FAIL at op %d `%s`: %s" % (r["judge_fail"]["op_index"], r["judge_fail"]["op"], r["judge_fail"]["what"])); rc = 1
        else:
            print("  judge: ok (%d ops judged%s)" % (r["judged"], ", then undetermined" if r["undet"] else ""))
        if r["disagree"]:
            d = r["disagree"]
            print("  correspondence: op %d `%s`\n    implementation: %s\n    model:          %s" % (d["op_index"], d["op"], d["impl"], d["model"])); rc = 1
        else:
            print("  correspondence: model and implementation agree")
        for (j, op, res) in r["panic_hang"]:
            print("  op %d `%s` -> %s" % (j, op, res))
    return rc

def main():
    a = sys.argv[1:]
    if not a:
        print(__doc__); return 2
    if a[0] == "setup":
        return setup()
    if a[0] == "check":
        pid = a[1]
        tier = os.environ.get("VERIF_TIER", "quick")
        seed = int(os.environ.get("VERIF_SEED", "1"))
        if "--tier" in a: tier = a[a.index("--tier") + 1]
        if "--seed" in a: seed = int(a[a.index("--seed") + 1])
        return check(pid, tier, seed)
    if a[0] == "replay":
        return replay(a[1])
    print(__doc__); return 2

if __name__ == "__main__":
    sys.exit(main())
