//! `bsdrive` - drives the real `byteseries` library with an operation script.
//!
//! The script language and the result format are specified in
//! `/verif/spec/SCRIPT.md`; this file follows that document to the letter.
//!
//! ```text
//! bsdrive <script-file> [--workdir <dir>] [--op-timeout-ms <n>] [--start-history <k>]
//! ```
//!
//! * one result line per op on stdout (flushed after every line),
//! * every library call runs inside `catch_unwind` (result `panic`) and under a
//!   watchdog (result `hang`, then `HANG history=<k>` on stderr and exit code 3),
//! * exit code 0 at the end of the script, 2 on a usage/script syntax error.
//!
//! Test hook (not part of the spec): if the environment variable
//! `BSDRIVE_TEST_DELAY_MS` is set, every watched library call is preceded by a
//! sleep of that many milliseconds *inside* the watched region. This exists only
//! to exercise the watchdog.

use std::error::Error as StdError;
use std::fs;
use std::io::{self, BufWriter, Read, Write};
use std::ops::Bound;
use std::panic::{catch_unwind, AssertUnwindSafe};
use std::path::{Path, PathBuf};
use std::sync::{LazyLock, Mutex, MutexGuard};
use std::time::{Duration, Instant};

use byteseries::series::data;
use byteseries::{downsample, file, series, ByteSeries};

// ---------------------------------------------------------------------------
// Output (stdout is shared between the main thread and the watchdog)
// ---------------------------------------------------------------------------

static OUT: LazyLock<Mutex<BufWriter<io::Stdout>>> =
    LazyLock::new(|| Mutex::new(BufWriter::new(io::stdout())));

/// Print one line to stdout and flush. Lines are never interleaved since the
/// writer lives behind a global mutex.
fn emit(line: &str) {
    let mut out = OUT.lock().unwrap_or_else(|p| p.into_inner());
    let _ = out.write_all(line.as_bytes());
    let _ = out.write_all(b"\n");
    let _ = out.flush();
}

// ---------------------------------------------------------------------------
// Watchdog
// ---------------------------------------------------------------------------

/// What the watchdog has to print as `<result>` when the current call hangs.
#[derive(Clone, Copy)]
enum HangCtx {
    /// `R hang | `
    Plain,
    /// the i-th push of a `pushseq`: `R stop <i> hang | `
    Seq(u64),
}

struct Watch {
    /// a library call is running
    armed: bool,
    /// when the running call started
    started: Instant,
    ctx: HangCtx,
    /// 0-based index of the current history among the `history` lines of the
    /// file, -1 for the implicit history before the first `history` line
    history: i64,
    /// removed (best effort) before the process exits on a hang
    workdir: Option<PathBuf>,
}

static WATCH: LazyLock<Mutex<Watch>> = LazyLock::new(|| {
    Mutex::new(Watch {
        armed: false,
        started: Instant::now(),
        ctx: HangCtx::Plain,
        history: -1,
        workdir: None,
    })
});

fn watch() -> MutexGuard<'static, Watch> {
    WATCH.lock().unwrap_or_else(|p| p.into_inner())
}

static TEST_DELAY: LazyLock<Option<Duration>> = LazyLock::new(|| {
    std::env::var("BSDRIVE_TEST_DELAY_MS")
        .ok()
        .and_then(|v| v.parse::<u64>().ok())
        .map(Duration::from_millis)
});

/// Run one library call: under the watchdog and inside `catch_unwind`.
/// `Err(())` means the call panicked.
///
/// The watchdog decides on a hang while holding the `WATCH` lock and exits the
/// process without releasing it. So either the call is disarmed here first (and
/// the watchdog stays quiet) or the main thread blocks in the second `watch()`
/// below forever and never prints a result of its own: exactly one result line
/// per op in both cases.
fn watched<T>(ctx: HangCtx, f: impl FnOnce() -> T) -> Result<T, ()> {
    {
        let mut w = watch();
        w.armed = true;
        w.ctx = ctx;
        w.started = Instant::now();
    }
    let res = catch_unwind(AssertUnwindSafe(|| {
        if let Some(delay) = *TEST_DELAY {
            std::thread::sleep(delay);
        }
        f()
    }));
    watch().armed = false;
    res.map_err(|_payload| ())
}

fn spawn_watchdog(timeout: Duration) {
    let poll = (timeout / 4).clamp(Duration::from_millis(1), Duration::from_millis(25));
    std::thread::spawn(move || loop {
        std::thread::sleep(poll);
        let w = watch();
        if w.armed && w.started.elapsed() > timeout {
            // the lock is held until the process is gone, see `watched`
            let result = match w.ctx {
                HangCtx::Plain => "hang".to_string(),
                HangCtx::Seq(i) => format!("stop {i} hang"),
            };
            emit(&format!("R {result} | "));
            let _ = writeln!(io::stderr(), "HANG history={}", w.history);
            if let Some(dir) = &w.workdir {
                let _ = fs::remove_dir_all(dir);
            }
            std::process::exit(3);
        }
    });
}

// ---------------------------------------------------------------------------
// Decoders / the resampler of SCRIPT.md
// ---------------------------------------------------------------------------

/// Used for `read_all`, `read_first_n` and `last_line`: the item is the payload.
#[derive(Debug, Clone)]
struct RawDecoder;

impl byteseries::Decoder for RawDecoder {
    type Item = Vec<u8>;
    fn decode_payload(&mut self, payload: &[u8]) -> Vec<u8> {
        payload.to_vec()
    }
}

/// `BytesResampler{p}` of SCRIPT.md: one `u64` per payload byte (bytes >= 128 with
/// their lowest bit cleared), the library's
/// own `impl ResampleState for Vec<u64>` as state, `as u8` on the way back.
#[derive(Debug, Clone)]
struct BytesResampler {
    p: usize,
    /// `caches=..!`: `encode_item` hands back two bytes more than the payload size (the library takes the payload-size prefix)
    fat: bool,
}

impl byteseries::Decoder for BytesResampler {
    type Item = Vec<u64>;
    fn decode_payload(&mut self, payload: &[u8]) -> Vec<u64> {
        // bytes from 128 on lose their lowest bit: decode followed by encode is
        // deliberately not the identity on every payload (Bytes.rs_dec of the model)
        payload
            .iter()
            .map(|b| {
                let n = u64::from(*b);
                if n < 128 { n } else { n & !1 }
            })
            .collect()
    }
}

impl byteseries::Encoder for BytesResampler {
    type Item = Vec<u64>;
    fn encode_item(&mut self, item: &Vec<u64>) -> Vec<u8> {
        let mut out: Vec<u8> = item.iter().map(|v| *v as u8).collect();
        if self.fat {
            out.extend_from_slice(&[0xEE, 0xEE]);
        }
        out
    }
}

impl byteseries::Resampler for BytesResampler {
    type State = Vec<u64>;
    fn state(&self) -> Vec<u64> {
        vec![0u64; self.p]
    }
}

// ---------------------------------------------------------------------------
// Script
// ---------------------------------------------------------------------------

#[derive(Debug, Clone, Copy)]
enum Cb {
    None,
    Deny,
    Allow,
}

#[derive(Debug, Clone)]
enum Hdr {
    Any,
    Bytes(Vec<u8>),
    /// `hdr=any>HEX`: `with_any_header()` and then `with_header(HEX)` on the same builder (the last call decides: HEX is demanded)
    AnyThen(Vec<u8>),
    /// `hdr=HEX>any`: `with_header(HEX)` and then `with_any_header()` (any header is accepted)
    ThenAny(Vec<u8>),
}

#[derive(Debug, Clone)]
enum FileRef {
    Data(String),
    Index(String),
    Part(String),
    CData(String, usize),
    CIndex(String, usize),
}

impl FileRef {
    fn file_name(&self) -> String {
        match self {
            FileRef::Data(n) => format!("{n}.byteseries"),
            FileRef::Index(n) => format!("{n}.byteseries_index"),
            FileRef::Part(n) => format!("{n}.byteseries_index.part"),
            FileRef::CData(n, b) => format!("{n}_None_{b}.byteseries"),
            FileRef::CIndex(n, b) => format!("{n}_None_{b}.byteseries_index"),
        }
    }
}

type TsBound = Bound<u64>;

#[derive(Debug, Clone)]
enum Op {
    New {
        name: String,
        p: usize,
        hdr: Vec<u8>,
        caches: Vec<usize>,
        fat: bool,
        cb: Cb,
        /// pass the path with the `.byteseries` extension (optional 7th token `ext=1`)
        ext: bool,
    },
    Open {
        name: String,
        p: Option<usize>,
        /// `p=any!`: the builder was first told to create (`create_new(true)`, `payload_size(4)`) and then to take the payload
        /// size from the file (`retrieve_payload_size()`): a builder that can only open, like `p=any`
        chain: bool,
        hdr: Hdr,
        caches: Vec<usize>,
        fat: bool,
        cb: Cb,
        ext: bool,
    },
    Close,
    Push { ts: u64, payload: Vec<u8> },
    PushSeq { ts0: u64, step: u64, count: u64, seed: u64 },
    ReadAll { lo: TsBound, hi: TsBound },
    ReadFirstN { n: usize, lo: TsBound, hi: TsBound },
    ReadN { n: usize, lo: TsBound, hi: TsBound },
    NLines { lo: TsBound, hi: TsBound },
    LastLine,
    Len,
    IsEmpty,
    Range,
    PayloadSize,
    FsTrunc { file: FileRef, len: u64 },
    FsRm { file: FileRef },
    FsWrite { file: FileRef, bytes: Vec<u8> },
    FsAppend { file: FileRef, bytes: Vec<u8> },
    FsPatch { file: FileRef, from_end: u64, bytes: Vec<u8> },
    FsCut { file: FileRef, n: u64 },
    FsAsset { dir: String, stem: String },
    Dump,
}

#[derive(Debug, Clone)]
enum Line {
    History(String),
    Op(Op),
}

/// Unsigned decimal, digits only (no sign, no `_`).
fn parse_num<T: std::str::FromStr>(s: &str) -> Option<T> {
    if s.is_empty() || !s.bytes().all(|b| b.is_ascii_digit()) {
        return None;
    }
    s.parse().ok()
}

/// lower-case hex without prefix, `-` for the empty string
fn parse_hex(s: &str) -> Option<Vec<u8>> {
    if s == "-" {
        return Some(Vec::new());
    }
    let b = s.as_bytes();
    if b.is_empty() || b.len() % 2 != 0 {
        return None;
    }
    let nibble = |c: u8| match c {
        b'0'..=b'9' => Some(c - b'0'),
        b'a'..=b'f' => Some(c - b'a' + 10),
        _ => None,
    };
    b.chunks_exact(2)
        .map(|c| Some(nibble(c[0])? << 4 | nibble(c[1])?))
        .collect()
}

fn parse_name(s: &str) -> Option<String> {
    let ok = !s.is_empty()
        && s.bytes()
            .all(|b| b.is_ascii_alphanumeric() || b == b'_');
    ok.then(|| s.to_string())
}

/// asset directory / file name stem: a single harmless path component
fn parse_component(s: &str) -> Option<String> {
    let ok = !s.is_empty()
        && s != "."
        && s != ".."
        && s.bytes()
            .all(|b| b.is_ascii_alphanumeric() || b == b'_' || b == b'-' || b == b'.');
    ok.then(|| s.to_string())
}

fn parse_bound(s: &str) -> Option<TsBound> {
    if s == "u" {
        Some(Bound::Unbounded)
    } else if let Some(ts) = s.strip_prefix('i') {
        parse_num(ts).map(Bound::Included)
    } else if let Some(ts) = s.strip_prefix('e') {
        parse_num(ts).map(Bound::Excluded)
    } else {
        None
    }
}

fn parse_caches(s: &str) -> Option<Vec<usize>> {
    if s == "-" {
        return Some(Vec::new());
    }
    s.split(',').map(parse_num::<usize>).collect()
}

fn parse_cb(s: &str) -> Option<Cb> {
    match s {
        "none" => Some(Cb::None),
        "deny" => Some(Cb::Deny),
        "allow" => Some(Cb::Allow),
        _ => None,
    }
}

fn parse_file_ref(s: &str) -> Option<FileRef> {
    let parts: Vec<&str> = s.split(':').collect();
    match parts.as_slice() {
        ["data", n] => Some(FileRef::Data(parse_name(n)?)),
        ["index", n] => Some(FileRef::Index(parse_name(n)?)),
        ["part", n] => Some(FileRef::Part(parse_name(n)?)),
        ["cdata", n, b] => Some(FileRef::CData(parse_name(n)?, parse_num(b)?)),
        ["cindex", n, b] => Some(FileRef::CIndex(parse_name(n)?, parse_num(b)?)),
        _ => None,
    }
}

/// `None`: blank or comment line. `Some(None)`: syntax error.
fn parse_line(raw: &str) -> Option<Option<Line>> {
    let line = raw.trim_end();
    if line.is_empty() || line.starts_with('#') {
        return None;
    }
    Some(parse_op_line(line))
}

fn parse_op_line(line: &str) -> Option<Line> {
    // tokens are separated by *single* spaces: an empty token is an error
    let t: Vec<&str> = line.split(' ').collect();
    if t.iter().any(|tok| tok.is_empty()) {
        return None;
    }
    let op = match t.as_slice() {
        ["history", id] => return Some(Line::History((*id).to_string())),
        ["new", name, p, hdr, caches, cb] => Op::New {
            name: parse_name(name)?,
            p: parse_num(p.strip_prefix("p=")?)?,
            hdr: parse_hex(hdr.strip_prefix("hdr=")?)?,
            caches: parse_caches(caches.strip_prefix("caches=")?.trim_end_matches('!'))?,
            fat: caches.ends_with('!'),
            cb: parse_cb(cb.strip_prefix("cb=")?)?,
            ext: false,
        },
        ["new", name, p, hdr, caches, cb, ext] => Op::New {
            name: parse_name(name)?,
            p: parse_num(p.strip_prefix("p=")?)?,
            hdr: parse_hex(hdr.strip_prefix("hdr=")?)?,
            caches: parse_caches(caches.strip_prefix("caches=")?.trim_end_matches('!'))?,
            fat: caches.ends_with('!'),
            cb: parse_cb(cb.strip_prefix("cb=")?)?,
            ext: match ext.strip_prefix("ext=")? {
                "0" => false,
                "1" => true,
                _ => return None,
            },
        },
        ["open", name, p, hdr, caches, cb, ext] => Op::Open {
            name: parse_name(name)?,
            p: match p.strip_prefix("p=")? {
                "any" | "any!" => None,
                n => Some(parse_num(n)?),
            },
            chain: p == &"p=any!",
            hdr: match hdr.strip_prefix("hdr=")? {
                "any" => Hdr::Any,
                h if h.starts_with("any>") => Hdr::AnyThen(parse_hex(&h[4..])?),
                h if h.ends_with(">any") => Hdr::ThenAny(parse_hex(&h[..h.len() - 4])?),
                h => Hdr::Bytes(parse_hex(h)?),
            },
            caches: parse_caches(caches.strip_prefix("caches=")?.trim_end_matches('!'))?,
            fat: caches.ends_with('!'),
            cb: parse_cb(cb.strip_prefix("cb=")?)?,
            ext: match ext.strip_prefix("ext=")? {
                "0" => false,
                "1" => true,
                _ => return None,
            },
        },
        ["close"] => Op::Close,
        ["push", ts, payload] => Op::Push {
            ts: parse_num(ts)?,
            payload: parse_hex(payload)?,
        },
        ["pushseq", ts0, step, count, seed] => Op::PushSeq {
            ts0: parse_num(ts0)?,
            step: parse_num(step)?,
            count: parse_num(count)?,
            seed: parse_num(seed)?,
        },
        ["read_all", lo, hi] => Op::ReadAll {
            lo: parse_bound(lo)?,
            hi: parse_bound(hi)?,
        },
        ["read_first_n", n, lo, hi] => Op::ReadFirstN {
            n: parse_num(n)?,
            lo: parse_bound(lo)?,
            hi: parse_bound(hi)?,
        },
        ["read_n", n, lo, hi] => Op::ReadN {
            n: parse_num(n)?,
            lo: parse_bound(lo)?,
            hi: parse_bound(hi)?,
        },
        ["n_lines", lo, hi] => Op::NLines {
            lo: parse_bound(lo)?,
            hi: parse_bound(hi)?,
        },
        ["last_line"] => Op::LastLine,
        ["len"] => Op::Len,
        ["is_empty"] => Op::IsEmpty,
        ["range"] => Op::Range,
        ["payload_size"] => Op::PayloadSize,
        ["fs_trunc", f, len] => Op::FsTrunc {
            file: parse_file_ref(f)?,
            len: parse_num(len)?,
        },
        ["fs_rm", f] => Op::FsRm {
            file: parse_file_ref(f)?,
        },
        ["fs_write", f, bytes] => Op::FsWrite {
            file: parse_file_ref(f)?,
            bytes: parse_hex(bytes)?,
        },
        ["fs_append", f, bytes] => Op::FsAppend {
            file: parse_file_ref(f)?,
            bytes: parse_hex(bytes)?,
        },
        ["fs_cut", f, n] => Op::FsCut {
            file: parse_file_ref(f)?,
            n: parse_num(n)?,
        },
        ["fs_patch", f, from_end, bytes] => Op::FsPatch {
            file: parse_file_ref(f)?,
            from_end: parse_num(from_end)?,
            bytes: parse_hex(bytes)?,
        },
        ["fs_asset", dir, stem] => Op::FsAsset {
            dir: parse_component(dir)?,
            stem: parse_component(stem)?,
        },
        ["dump"] => Op::Dump,
        _ => return None,
    };
    Some(Line::Op(op))
}

// ---------------------------------------------------------------------------
// Formatting helpers, snapshot
// ---------------------------------------------------------------------------

fn hex(bytes: &[u8]) -> String {
    if bytes.is_empty() {
        return "-".to_string();
    }
    const DIGITS: &[u8; 16] = b"0123456789abcdef";
    let mut s = String::with_capacity(bytes.len() * 2);
    for b in bytes {
        s.push(DIGITS[(b >> 4) as usize] as char);
        s.push(DIGITS[(b & 15) as usize] as char);
    }
    s
}

/// FNV-1a, 64 bit
fn fnv1a64(bytes: &[u8]) -> u64 {
    let mut h: u64 = 0xcbf2_9ce4_8422_2325;
    for b in bytes {
        h ^= u64::from(*b);
        h = h.wrapping_mul(0x0000_0100_0000_01b3);
    }
    h
}

/// The regular files of `dir` with their content, sorted by file name.
fn dir_content(dir: &Path) -> Vec<(String, Vec<u8>)> {
    let mut files: Vec<(String, Vec<u8>)> = Vec::new();
    if let Ok(entries) = fs::read_dir(dir) {
        for entry in entries.flatten() {
            let is_file = entry.file_type().map(|t| t.is_file()).unwrap_or(false);
            if !is_file {
                continue;
            }
            let name = entry.file_name().to_string_lossy().into_owned();
            let content = fs::read(entry.path()).unwrap_or_default();
            files.push((name, content));
        }
    }
    files.sort_by(|a, b| a.0.as_bytes().cmp(b.0.as_bytes()));
    files
}

fn snapshot_of(files: &[(String, Vec<u8>)]) -> String {
    files
        .iter()
        .map(|(name, c)| format!("{name}={}:{:016x}", c.len(), fnv1a64(c)))
        .collect::<Vec<_>>()
        .join(" ")
}

// ---------------------------------------------------------------------------
// Error classes
// ---------------------------------------------------------------------------

/// Is there an `io::Error` of this kind somewhere in the `source()` chain?
fn chain_has_io_kind(e: &(dyn StdError + 'static), kind: io::ErrorKind) -> bool {
    let mut cur: Option<&(dyn StdError + 'static)> = Some(e);
    while let Some(c) = cur {
        if c.downcast_ref::<io::Error>()
            .is_some_and(|io| io.kind() == kind)
        {
            return true;
        }
        cur = c.source();
    }
    false
}

/// Is there a `file::OpenError` matching `pred` somewhere in the chain?
fn chain_has_file_err(
    e: &(dyn StdError + 'static),
    pred: fn(&file::OpenError) -> bool,
) -> bool {
    let mut cur: Option<&(dyn StdError + 'static)> = Some(e);
    while let Some(c) = cur {
        if c.downcast_ref::<file::OpenError>().is_some_and(pred) {
            return true;
        }
        cur = c.source();
    }
    false
}

/// `new`: `Exists`, `HeaderTooLarge` or `Other`.
fn classify_new(e: &series::Error) -> &'static str {
    // Some variants embed an io::Error without exposing it as `source()`
    // (`CheckOrRepair`, `GetLength`, `ReadSource`), the Debug text covers those
    // too. File names are `[a-z0-9_.]` only so the text can not match by chance.
    let dbg = format!("{e:?}");
    if chain_has_file_err(e, |f| matches!(f, file::OpenError::AlreadyExists))
        || chain_has_io_kind(e, io::ErrorKind::AlreadyExists)
        || dbg.contains("AlreadyExists")
    {
        "err Exists"
    } else if chain_has_file_err(e, |f| matches!(f, file::OpenError::HeaderTooLarge))
        || dbg.contains("HeaderTooLarge")
    {
        "err HeaderTooLarge"
    } else {
        "err Other"
    }
}

/// `open`: `NotFound`, `Mismatch` or `Other`.
fn classify_open(e: &series::Error) -> &'static str {
    match e {
        // `Error::Open(OpenError::File{..})` is only constructed for the *data*
        // file; a missing index is rebuilt, a missing cache is wrapped in
        // `Error::Downsampled`.
        series::Error::Open(data::OpenError::File {
            source: file::OpenError::Io(io_err),
            ..
        }) if io_err.kind() == io::ErrorKind::NotFound => "err NotFound",
        series::Error::Header(_) => "err Mismatch",
        // `file_header::Error` lives in a private module: not nameable, its
        // Debug text starts with the variant name.
        series::Error::Parameters(inner)
            if format!("{inner:?}").starts_with("PayloadSizeChanged") =>
        {
            "err Mismatch"
        }
        _ => "err Other",
    }
}

fn classify_push(e: &series::Error) -> &'static str {
    match e {
        series::Error::WrongLineLength { .. } => "err WrongLen",
        series::Error::TimeNotAfterLast { .. } => "err NotAfterLast",
        _ => "err Other",
    }
}

/// `read_all`, `read_first_n`, `read_n`, `n_lines`
fn classify_read(e: &series::Error) -> &'static str {
    match e {
        series::Error::InvalidRange(_) | series::Error::Seeking(_) => "err Range",
        series::Error::Reading(data::ReadError::CorruptMetaSection) => "err Corrupt",
        _ => "err Other",
    }
}

fn classify_last_line(e: &data::ReadError) -> &'static str {
    match e {
        data::ReadError::NoData => "err NoData",
        data::ReadError::CorruptMetaSection => "err Corrupt",
        data::ReadError::Io(_) => "err Other",
    }
}

// ---------------------------------------------------------------------------
// Executing ops
// ---------------------------------------------------------------------------

struct State {
    /// directory of the current history
    dir: PathBuf,
    handle: Option<ByteSeries>,
}

const PLAIN: HangCtx = HangCtx::Plain;

/// Finish a builder (any of its type states that can `open`): optional caches,
/// optional corruption callback, then `open(path)`.
macro_rules! finish_builder {
    ($builder:expr, $caches:expr, $cb:expr, $resampler_p:expr, $path:expr, $fat:expr) => {{
        let b = $builder;
        if $caches.is_empty() {
            // the default `EmptyResampler` stays in place
            let b = match $cb {
                Cb::None => b,
                Cb::Deny => b.with_callback_on_recoverable_corruption(Box::new(|| false)),
                Cb::Allow => b.with_callback_on_recoverable_corruption(Box::new(|| true)),
            };
            b.open($path)
        } else {
            let configs: Vec<downsample::Config> = $caches
                .iter()
                .map(|bucket| downsample::Config {
                    max_gap: None,
                    bucket_size: *bucket,
                })
                .collect();
            let b = b.with_downsampled_cache(BytesResampler { p: $resampler_p, fat: $fat }, configs);
            let b = match $cb {
                Cb::None => b,
                Cb::Deny => b.with_callback_on_recoverable_corruption(Box::new(|| false)),
                Cb::Allow => b.with_callback_on_recoverable_corruption(Box::new(|| true)),
            };
            b.open($path)
        }
    }};
}

/// Payload size according to the preamble of a data file, read-only. Only used
/// to size the state of `BytesResampler` for `open p=any caches=<non-empty>`.
/// If this fails the library fails on the preamble as well, before a resampler
/// is ever used.
fn peek_payload_size(data_file: &Path) -> Option<usize> {
    const START: &[u8] = b"For this file that is: ";
    const END: &[u8] = b" bytes.";
    let mut buf = Vec::new();
    fs::File::open(data_file)
        .ok()?
        .take(1 << 17)
        .read_to_end(&mut buf)
        .ok()?;
    let find = |hay: &[u8], needle: &[u8]| hay.windows(needle.len()).position(|w| w == needle);
    let start = find(&buf, START)? + START.len();
    let end = start + find(&buf[start..], END)?;
    std::str::from_utf8(&buf[start..end]).ok()?.parse().ok()
}

impl State {
    /// Drop the handle (if any) like a library call. Returns true if dropping
    /// panicked.
    fn drop_handle(&mut self) -> bool {
        match self.handle.take() {
            Some(bs) => watched(PLAIN, move || drop(bs)).is_err(),
            None => false,
        }
    }

    /// The call on the handle panicked: drop the handle, result is `panic`.
    fn panicked(&mut self) -> String {
        self.drop_handle();
        "panic".to_string()
    }

    /// Run `call` on the open handle. `Err` carries the finished result
    /// (`err NoHandle` or `panic`).
    fn with_handle<T>(
        &mut self,
        ctx: HangCtx,
        call: impl FnOnce(&mut ByteSeries) -> T,
    ) -> Result<T, String> {
        let Some(bs) = self.handle.as_mut() else {
            return Err("err NoHandle".to_string());
        };
        match watched(ctx, || call(bs)) {
            Ok(v) => Ok(v),
            Err(()) => Err(self.panicked()),
        }
    }

    fn finish_open(
        &mut self,
        res: Result<Result<(ByteSeries, Vec<u8>), series::Error>, ()>,
        classify: fn(&series::Error) -> &'static str,
    ) -> String {
        match res {
            Err(()) => "panic".to_string(),
            Ok(Err(e)) => {
                let class = classify(&e);
                // an error can own files, get rid of it like a library call
                let _ = watched(PLAIN, move || drop(e));
                class.to_string()
            }
            Ok(Ok((bs, header))) => {
                self.handle = Some(bs);
                match self.with_handle(PLAIN, |bs| bs.payload_size()) {
                    Ok(p) => format!("ok p={p} hdr={}", hex(&header)),
                    Err(result) => result,
                }
            }
        }
    }

    fn op_new(
        &mut self,
        name: &str,
        p: usize,
        hdr: &[u8],
        caches: &[usize],
        fat: bool,
        cb: Cb,
        ext: bool,
    ) -> String {
        self.drop_handle();
        let path = if ext {
            self.dir.join(format!("{name}.byteseries"))
        } else {
            self.dir.join(name)
        };
        let hdr = hdr.to_vec();
        let res = watched(PLAIN, || {
            let b = ByteSeries::builder()
                .payload_size(p)
                .create_new(true)
                .with_header(hdr);
            finish_builder!(b, caches, cb, p, &path, fat)
        });
        self.finish_open(res, classify_new)
    }

    fn op_open(
        &mut self,
        name: &str,
        p: Option<usize>,
        chain: bool,
        hdr: &Hdr,
        caches: &[usize],
        fat: bool,
        cb: Cb,
        ext: bool,
    ) -> String {
        self.drop_handle();
        let data_file = self.dir.join(format!("{name}.byteseries"));
        let path = if ext {
            data_file.clone()
        } else {
            self.dir.join(name)
        };
        let hdr = hdr.clone();
        let res = match p {
            Some(p) => watched(PLAIN, || {
                let b = ByteSeries::builder().payload_size(p);
                let b = match hdr {
                    Hdr::Any => b.with_any_header(),
                    Hdr::Bytes(bytes) => b.with_header(bytes),
                    Hdr::AnyThen(bytes) => b.with_any_header().with_header(bytes),
                    Hdr::ThenAny(bytes) => b.with_header(bytes).with_any_header(),
                };
                finish_builder!(b, caches, cb, p, &path, fat)
            }),
            None => {
                let resampler_p = if caches.is_empty() {
                    0
                } else {
                    peek_payload_size(&data_file).unwrap_or(0)
                };
                watched(PLAIN, || {
                    let b = if chain {
                        ByteSeries::builder()
                            .create_new(true)
                            .payload_size(4)
                            .retrieve_payload_size()
                    } else {
                        ByteSeries::builder().retrieve_payload_size()
                    };
                    let b = match hdr {
                        Hdr::Any => b.with_any_header(),
                        Hdr::Bytes(bytes) => b.with_header(bytes),
                        Hdr::AnyThen(bytes) => b.with_any_header().with_header(bytes),
                        Hdr::ThenAny(bytes) => b.with_header(bytes).with_any_header(),
                    };
                    finish_builder!(b, caches, cb, resampler_p, &path, fat)
                })
            }
        };
        self.finish_open(res, classify_open)
    }

    fn op_close(&mut self) -> String {
        if self.handle.is_none() {
            return "err NoHandle".to_string();
        }
        if self.drop_handle() {
            "panic".to_string()
        } else {
            "ok".to_string()
        }
    }

    /// One push; the result without the `R ` prefix.
    fn push(&mut self, ctx: HangCtx, ts: u64, payload: &[u8]) -> String {
        match self.with_handle(ctx, |bs| bs.push_line(ts, payload)) {
            Ok(Ok(())) => "ok".to_string(),
            Ok(Err(e)) => classify_push(&e).to_string(),
            Err(result) => result,
        }
    }

    fn op_pushseq(&mut self, ts0: u64, step: u64, count: u64, seed: u64) -> String {
        let p = match self.with_handle(PLAIN, |bs| bs.payload_size()) {
            Ok(p) => p,
            Err(result) => return result,
        };
        let mut payload = vec![0u8; p];
        for i in 0..count {
            // no wrapping: an unrepresentable timestamp ends the sequence
            let Some(ts) = step.checked_mul(i).and_then(|d| ts0.checked_add(d)) else {
                return format!("stop {i} err Other");
            };
            // pay[j] = (seed + 131*i + 71*j) mod 256, without overflow
            let base = (seed % 256 + 131 * (i % 256)) % 256;
            for (j, byte) in payload.iter_mut().enumerate() {
                *byte = ((base + 71 * (j as u64 % 256)) % 256) as u8;
            }
            let result = self.push(HangCtx::Seq(i), ts, &payload);
            if result != "ok" {
                return format!("stop {i} {result}");
            }
        }
        format!("ok {count}")
    }

    fn format_items(ts: &[u64], items: &[Vec<u8>]) -> String {
        if ts.len() != items.len() {
            // can not happen: the library pushes to both in lock step
            return "err Other".to_string();
        }
        let mut s = format!("ok {}", ts.len());
        for (t, item) in ts.iter().zip(items) {
            s.push(' ');
            s.push_str(&t.to_string());
            s.push(':');
            s.push_str(&hex(item));
        }
        s
    }

    /// The read calls append to vectors the caller owns. Every read of the harness hands in vectors that already hold
    /// `pre` foreign entries (as an application that collects several reads into one pair of vectors does); what the call
    /// appended is what lies behind them. An entry of the caller that was changed or removed is reported as `clobbered`.
    const SENTINEL_TS: u64 = 0x5E5E_5E5E_5E5E_5E5E;

    fn op_read_all(&mut self, lo: TsBound, hi: TsBound) -> String {
        let pre = 3;
        let mut ts = vec![Self::SENTINEL_TS; pre];
        let mut items: Vec<Vec<u8>> = vec![vec![0xA5]; pre];
        let res = self.with_handle(PLAIN, |bs| {
            bs.read_all((lo, hi), &mut RawDecoder, &mut ts, &mut items)
        });
        if matches!(res, Ok(Ok(()))) {
            if ts.len() < pre || items.len() < pre || ts[..pre].iter().any(|t| *t != Self::SENTINEL_TS) || items[..pre].iter().any(|i| i != &vec![0xA5]) {
                return "clobbered".to_string();
            }
            ts.drain(..pre);
            items.drain(..pre);
        }
        match res {
            Ok(Ok(())) => Self::format_items(&ts, &items),
            Ok(Err(e)) => classify_read(&e).to_string(),
            Err(result) => result,
        }
    }

    fn op_read_first_n(&mut self, n: usize, lo: TsBound, hi: TsBound) -> String {
        let pre = if n < 50_000 { n + 1 } else { 2 };
        let mut ts = vec![Self::SENTINEL_TS; pre];
        let mut items: Vec<Vec<u8>> = vec![vec![0xA5]; pre];
        let res = self.with_handle(PLAIN, |bs| {
            bs.read_first_n(n, &mut RawDecoder, (lo, hi), &mut ts, &mut items)
        });
        if matches!(res, Ok(Ok(()))) {
            if ts.len() < pre || items.len() < pre || ts[..pre].iter().any(|t| *t != Self::SENTINEL_TS) || items[..pre].iter().any(|i| i != &vec![0xA5]) {
                return "clobbered".to_string();
            }
            ts.drain(..pre);
            items.drain(..pre);
        }
        match res {
            Ok(Ok(())) => Self::format_items(&ts, &items),
            Ok(Err(e)) => classify_read(&e).to_string(),
            Err(result) => result,
        }
    }

    fn op_read_n(&mut self, n: usize, lo: TsBound, hi: TsBound) -> String {
        let p = match self.with_handle(PLAIN, |bs| bs.payload_size()) {
            Ok(p) => p,
            Err(result) => return result,
        };
        let mut resampler = BytesResampler { p, fat: false };
        // more foreign entries than the 2n samples one call may add
        let pre = if n < 50_000 { 2 * n + 1 } else { 2 };
        let mut ts = vec![Self::SENTINEL_TS; pre];
        let mut items: Vec<Vec<u64>> = vec![vec![0xA5A5]; pre];
        // the last argument (`skip_corrupt_meta`) is not used by the library
        let res = self.with_handle(PLAIN, |bs| {
            bs.read_n(n, (lo, hi), &mut resampler, &mut ts, &mut items, false)
        });
        if matches!(res, Ok(Ok(()))) {
            if ts.len() < pre || items.len() < pre || ts[..pre].iter().any(|t| *t != Self::SENTINEL_TS) || items[..pre].iter().any(|i| i != &vec![0xA5A5]) {
                return "clobbered".to_string();
            }
            ts.drain(..pre);
            items.drain(..pre);
        }
        match res {
            Ok(Ok(())) => {
                use byteseries::Encoder;
                let encoded: Vec<Vec<u8>> =
                    items.iter().map(|i| resampler.encode_item(i)).collect();
                Self::format_items(&ts, &encoded)
            }
            Ok(Err(e)) => classify_read(&e).to_string(),
            Err(result) => result,
        }
    }

    fn op_n_lines(&mut self, lo: TsBound, hi: TsBound) -> String {
        match self.with_handle(PLAIN, |bs| bs.n_lines_between((lo, hi))) {
            Ok(Ok(n)) => format!("ok {n}"),
            Ok(Err(e)) => classify_read(&e).to_string(),
            Err(result) => result,
        }
    }

    fn op_last_line(&mut self) -> String {
        match self.with_handle(PLAIN, |bs| bs.last_line(&mut RawDecoder)) {
            Ok(Ok((ts, item))) => format!("ok {ts}:{}", hex(&item)),
            Ok(Err(e)) => classify_last_line(&e).to_string(),
            Err(result) => result,
        }
    }

    fn op_range(&mut self) -> String {
        match self.with_handle(PLAIN, |bs| bs.range()) {
            Ok(None) => "ok none".to_string(),
            Ok(Some(r)) => format!("ok {} {}", r.start(), r.end()),
            Err(result) => result,
        }
    }

    // ----- fs ops: plain std::fs, only legal while no handle is open -----

    fn fs_op(&mut self, file: &FileRef, op: impl FnOnce(&Path) -> io::Result<()>) -> String {
        if self.handle.is_some() {
            return "err HandleOpen".to_string();
        }
        let path = self.dir.join(file.file_name());
        match op(&path) {
            Ok(()) => "ok".to_string(),
            Err(e) if e.kind() == io::ErrorKind::NotFound => "err NoFile".to_string(),
            // not in SCRIPT.md; an unexpected OS level failure
            Err(_) => "err Other".to_string(),
        }
    }

    fn op_fs_asset(&mut self, asset_dir: &str, stem: &str) -> String {
        if self.handle.is_some() {
            return "err HandleOpen".to_string();
        }
        let src = Path::new("/repo/assets").join(asset_dir);
        let Ok(entries) = fs::read_dir(&src) else {
            return "err NoFile".to_string();
        };
        let mut copied = 0usize;
        for entry in entries.flatten() {
            let name = entry.file_name().to_string_lossy().into_owned();
            let is_file = entry.file_type().map(|t| t.is_file()).unwrap_or(false);
            if !is_file || !name.starts_with(stem) {
                continue;
            }
            // read + write (not fs::copy): the copy gets default permissions
            let Ok(content) = fs::read(entry.path()) else {
                return "err Other".to_string();
            };
            if fs::write(self.dir.join(&name), content).is_err() {
                return "err Other".to_string();
            }
            copied += 1;
        }
        if copied == 0 {
            "err NoFile".to_string()
        } else {
            "ok".to_string()
        }
    }

    /// Execute one op, print its result line(s).
    fn run(&mut self, op: &Op) {
        let mut with_dump = false;
        let result = match op {
            Op::New {
                name,
                p,
                hdr,
                caches,
                fat,
                cb,
                ext,
            } => self.op_new(name, *p, hdr, caches, *fat, *cb, *ext),
            Op::Open {
                name,
                p,
                chain,
                hdr,
                caches,
                fat,
                cb,
                ext,
            } => self.op_open(name, *p, *chain, hdr, caches, *fat, *cb, *ext),
            Op::Close => self.op_close(),
            Op::Push { ts, payload } => self.push(PLAIN, *ts, payload),
            Op::PushSeq {
                ts0,
                step,
                count,
                seed,
            } => self.op_pushseq(*ts0, *step, *count, *seed),
            Op::ReadAll { lo, hi } => self.op_read_all(*lo, *hi),
            Op::ReadFirstN { n, lo, hi } => self.op_read_first_n(*n, *lo, *hi),
            Op::ReadN { n, lo, hi } => self.op_read_n(*n, *lo, *hi),
            Op::NLines { lo, hi } => self.op_n_lines(*lo, *hi),
            Op::LastLine => self.op_last_line(),
            Op::Len => match self.with_handle(PLAIN, |bs| bs.len()) {
                Ok(n) => format!("ok {n}"),
                Err(result) => result,
            },
            Op::IsEmpty => match self.with_handle(PLAIN, |bs| bs.is_empty()) {
                Ok(e) => format!("ok {}", u8::from(e)),
                Err(result) => result,
            },
            Op::Range => self.op_range(),
            Op::PayloadSize => match self.with_handle(PLAIN, |bs| bs.payload_size()) {
                Ok(p) => format!("ok {p}"),
                Err(result) => result,
            },
            Op::FsTrunc { file, len } => self.fs_op(file, |path| {
                fs::OpenOptions::new().write(true).open(path)?.set_len(*len)
            }),
            Op::FsRm { file } => self.fs_op(file, |path| fs::remove_file(path)),
            Op::FsWrite { file, bytes } => self.fs_op(file, |path| fs::write(path, bytes)),
            Op::FsAppend { file, bytes } => self.fs_op(file, |path| {
                fs::OpenOptions::new()
                    .append(true)
                    .open(path)?
                    .write_all(bytes)
            }),
            Op::FsCut { file, n } => self.fs_op(file, |path| {
                // remove the last n bytes of the file (all of them when it is shorter)
                let f = fs::OpenOptions::new().write(true).open(path)?;
                let len = f.metadata()?.len();
                f.set_len(len.saturating_sub(*n))
            }),
            Op::FsPatch {
                file,
                from_end,
                bytes,
            } => self.fs_op(file, |path| {
                // overwrite bytes starting `from_end` bytes before the end of the
                // file; the part of the patch that would extend the file is dropped
                let mut content = fs::read(path)?;
                let len = content.len() as u64;
                if *from_end <= len {
                    let start = (len - *from_end) as usize;
                    for (i, b) in bytes.iter().enumerate() {
                        if start + i < content.len() {
                            content[start + i] = *b;
                        }
                    }
                }
                fs::write(path, content)
            }),
            Op::FsAsset { dir, stem } => {
                let result = self.op_fs_asset(dir, stem);
                with_dump = result == "ok";
                result
            }
            Op::Dump => {
                // read-only, allowed while a handle is open (the library does
                // not buffer writes, the files are always current)
                with_dump = true;
                "ok".to_string()
            }
        };

        let files = dir_content(&self.dir);
        emit(&format!("R {result} | {}", snapshot_of(&files)));
        if with_dump {
            for (name, content) in &files {
                emit(&format!("D {name} {}", hex(content)));
            }
        }
    }
}

// ---------------------------------------------------------------------------
// main
// ---------------------------------------------------------------------------

struct Args {
    script: PathBuf,
    workdir: PathBuf,
    op_timeout: Duration,
    start_history: i64,
}

fn usage() -> ! {
    let _ = writeln!(
        io::stderr(),
        "usage: bsdrive <script-file> [--workdir <dir>] [--op-timeout-ms <n>] [--start-history <k>]"
    );
    std::process::exit(2);
}

fn parse_args() -> Args {
    let mut script = None;
    let mut workdir = None;
    let mut op_timeout_ms: u64 = 10_000;
    let mut start_history: i64 = 0;
    let mut args = std::env::args().skip(1);
    while let Some(arg) = args.next() {
        match arg.as_str() {
            "--workdir" => workdir = Some(PathBuf::from(args.next().unwrap_or_else(|| usage()))),
            "--op-timeout-ms" => {
                op_timeout_ms = args
                    .next()
                    .and_then(|v| parse_num(&v))
                    .unwrap_or_else(|| usage());
            }
            "--start-history" => {
                start_history = args
                    .next()
                    .and_then(|v| parse_num(&v))
                    .unwrap_or_else(|| usage());
            }
            other if other.starts_with("--") => usage(),
            _ if script.is_none() => script = Some(PathBuf::from(arg)),
            _ => usage(),
        }
    }
    Args {
        script: script.unwrap_or_else(|| usage()),
        workdir: workdir.unwrap_or_else(|| {
            PathBuf::from(format!("/verif/build/run/{}", std::process::id()))
        }),
        op_timeout: Duration::from_millis(op_timeout_ms),
        start_history,
    }
}

fn fresh_dir(dir: &Path) {
    let _ = fs::remove_dir_all(dir);
    if let Err(e) = fs::create_dir_all(dir) {
        let _ = writeln!(io::stderr(), "bsdrive: can not create {}: {e}", dir.display());
        std::process::exit(1);
    }
}

fn main() {
    let args = parse_args();

    // library panics are results, not noise
    std::panic::set_hook(Box::new(|_| {}));

    // The whole script is parsed up front: a syntax error is reported before
    // anything is executed or printed.
    let text = match fs::read(&args.script) {
        Ok(bytes) => String::from_utf8_lossy(&bytes).into_owned(),
        Err(e) => {
            let _ = writeln!(
                io::stderr(),
                "bsdrive: can not read {}: {e}",
                args.script.display()
            );
            std::process::exit(2);
        }
    };
    let mut lines = Vec::new();
    for (nr, raw) in text.lines().enumerate() {
        match parse_line(raw) {
            None => (),
            Some(Some(line)) => lines.push(line),
            Some(None) => {
                let _ = writeln!(io::stderr(), "syntax error in line {}: {raw}", nr + 1);
                std::process::exit(2);
            }
        }
    }

    fresh_dir(&args.workdir);
    watch().workdir = Some(args.workdir.clone());
    spawn_watchdog(args.op_timeout);

    let mut dir_counter: u64 = 0;
    let mut next_dir = |workdir: &Path| {
        let dir = workdir.join(format!("h{dir_counter}"));
        dir_counter += 1;
        fresh_dir(&dir);
        dir
    };

    // index of the current history among the `history` lines, -1: implicit
    let mut history_idx: i64 = -1;
    let mut executing = args.start_history == 0;
    let mut state: Option<State> = None;

    for line in &lines {
        match line {
            Line::History(id) => {
                history_idx += 1;
                executing = history_idx >= args.start_history;
                if !executing {
                    continue;
                }
                if let Some(mut old) = state.take() {
                    old.drop_handle();
                    let _ = fs::remove_dir_all(&old.dir);
                }
                watch().history = history_idx;
                state = Some(State {
                    dir: next_dir(&args.workdir),
                    handle: None,
                });
                emit(&format!("H {id}"));
            }
            Line::Op(op) => {
                if !executing {
                    continue;
                }
                // ops before the first `history` line: implicit history
                let state = state.get_or_insert_with(|| State {
                    dir: next_dir(&args.workdir),
                    handle: None,
                });
                state.run(op);
            }
        }
    }

    if let Some(mut last) = state.take() {
        last.drop_handle();
        let _ = fs::remove_dir_all(&last.dir);
    }
    let _ = fs::remove_dir_all(&args.workdir);
    OUT.lock()
        .unwrap_or_else(|p| p.into_inner())
        .flush()
        .ok();
    std::process::exit(0);
}
