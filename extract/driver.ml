(* bsmodel: runs the extracted Coq model (Model.step') on an operation script and prints
   result lines in the format of spec/SCRIPT.md.

     bsmodel <script> [--impl <result-file>] [--judge] [--selftest]

   --impl: the result file the harness wrote for the same script; needed for `fs_asset`
           (the copied files are taken from its D lines) and for --judge (the judge looks at
           what the implementation answered).
   Everything property-relevant is in the extracted code; this file only parses and prints. *)
open Model
type line = n * byte list

(* ---------- conversions ---------- *)
let byte_of_int (i:int) : byte = Bytetab.tab.(i land 255)
let int_of_byte (b:byte) : int = Bytetab.to_int b

let rec pos_of_int64 (x:int64) : positive =   (* x <> 0, treated as unsigned *)
  let lo = Int64.logand x 1L and hi = Int64.shift_right_logical x 1 in
  if hi = 0L then XH else if lo = 1L then XI (pos_of_int64 hi) else XO (pos_of_int64 hi)
let n_of_int64 (x:int64) : n = if x = 0L then N0 else Npos (pos_of_int64 x)
let n_of_int (i:int) : n = n_of_int64 (Int64.of_int i)
let n_of_string (s:string) : n = n_of_int64 (Int64.of_string ("0u" ^ s))
(* None when the value does not fit 64 bits *)
let int64_of_n (v:n) : int64 option =
  let rec go p depth = if depth > 64 then None else match p with
    | XH -> Some 1L
    | XO q -> (match go q (depth+1) with Some r -> Some (Int64.shift_left r 1) | None -> None)
    | XI q -> (match go q (depth+1) with Some r -> Some (Int64.logor (Int64.shift_left r 1) 1L) | None -> None)
  in
  let rec bits p = match p with XH -> 1 | XO q | XI q -> 1 + bits q in
  match v with N0 -> Some 0L | Npos p -> if bits p > 64 then None else go p 1
let string_of_n (v:n) : string =
  match int64_of_n v with Some x -> Printf.sprintf "%Lu" x | None -> "BIG"
let rec nat_of_int i = if i <= 0 then O else S (nat_of_int (i-1))

let bytes_of_string (s:string) : byte list =
  List.init (String.length s) (fun i -> byte_of_int (Char.code s.[i]))
let string_of_bytes (l:byte list) : string =
  let b = Buffer.create 64 in List.iter (fun x -> Buffer.add_char b (Char.chr (int_of_byte x))) l; Buffer.contents b
let hexdig = "0123456789abcdef"
let hex_of_bytes (l:byte list) : string =
  match l with [] -> "-" | _ ->
  let b = Buffer.create 64 in
  List.iter (fun x -> let i = int_of_byte x in Buffer.add_char b hexdig.[i lsr 4]; Buffer.add_char b hexdig.[i land 15]) l;
  Buffer.contents b
let bytes_of_hex (s:string) : byte list =
  if s = "-" then [] else
  let v c = match c with '0'..'9' -> Char.code c - 48 | 'a'..'f' -> Char.code c - 87 | _ -> failwith "hex" in
  List.init (String.length s / 2) (fun i -> byte_of_int (v s.[2*i] * 16 + v s.[2*i+1]))

(* FNV-1a 64 *)
let fnv (l:byte list) : string =
  let h = ref 0xcbf29ce484222325L in
  List.iter (fun x -> h := Int64.mul (Int64.logxor !h (Int64.of_int (int_of_byte x))) 0x100000001b3L) l;
  Printf.sprintf "%016Lx" !h

let snapshot (fs:fsys) : string =
  let files = List.map (fun (k, c) -> (string_of_bytes k, c)) fs in
  let files = List.sort (fun (a,_) (b,_) -> compare a b) files in
  String.concat " " (List.map (fun (k, c) -> Printf.sprintf "%s=%d:%s" k (List.length c) (fnv c)) files)

(* ---------- parsing ---------- *)
let split_kv tok = match String.index_opt tok '=' with
  | Some i -> (String.sub tok 0 i, String.sub tok (i+1) (String.length tok - i - 1))
  | None -> failwith ("expected key=value: " ^ tok)
let kv toks key = snd (List.find (fun t -> fst (split_kv t) = key) toks |> split_kv)
let parse_bound s : bound =
  if s = "u" then Unb else
  let v = n_of_string (String.sub s 1 (String.length s - 1)) in
  match s.[0] with 'i' -> Incl v | 'e' -> Excl v | _ -> failwith "bound"
let parse_caches s : n list =
  if s = "-" then [] else List.map n_of_string (String.split_on_char ',' s)
let parse_cb s = match s with "none" -> CbNone | "deny" -> CbDeny | "allow" -> CbAllow | _ -> failwith "cb"
let file_of_spec (s:string) : byte list =
  match String.split_on_char ':' s with
  | ["data"; n] -> bytes_of_string (n ^ ".byteseries")
  | ["index"; n] -> bytes_of_string (n ^ ".byteseries_index")
  | ["part"; n] -> bytes_of_string (n ^ ".byteseries_index.part")
  | ["cdata"; n; b] -> bytes_of_string (n ^ "_None_" ^ b ^ ".byteseries")
  | ["cindex"; n; b] -> bytes_of_string (n ^ "_None_" ^ b ^ ".byteseries_index")
  | _ -> failwith ("file spec: " ^ s)

(* ---------- printing ---------- *)
let err_name = function
  | EWrongLen -> "WrongLen" | ENotAfterLast -> "NotAfterLast" | ERange -> "Range" | ECorrupt -> "Corrupt"
  | ENoData -> "NoData" | EExists -> "Exists" | ENotFound -> "NotFound" | EMismatch -> "Mismatch"
  | EHeaderTooLarge -> "HeaderTooLarge" | EOther -> "Other" | ENoHandle -> "NoHandle" | ENoFile -> "NoFile"
  | EHandleOpen -> "HandleOpen"
let item (x:line) = string_of_n (fst x) ^ ":" ^ hex_of_bytes (snd x)
let string_of_out (o:out) : string = match o with
  | RUnit -> "ok"
  | ROpened (p, h) -> Printf.sprintf "ok p=%s hdr=%s" (string_of_n p) (hex_of_bytes h)
  | RLines l -> String.concat " " (("ok " ^ string_of_int (List.length l)) :: List.map item l)
  | RNum v -> "ok " ^ string_of_n v
  | RLine x -> "ok " ^ item x
  | RBool b -> if b then "ok 1" else "ok 0"
  | RRange None -> "ok none"
  | RRange (Some (a, b)) -> Printf.sprintf "ok %s %s" (string_of_n a) (string_of_n b)
  | RErr e -> "err " ^ err_name e
  | ROPanic -> "panic"
  | ROHang -> "hang"

(* ---------- impl result file (lockstep reader) ---------- *)
type impl = { mutable lines : string list }
let impl_load path : impl =
  let ic = open_in path in
  let rec go acc = match input_line ic with l -> go (l :: acc) | exception End_of_file -> close_in ic; List.rev acc in
  { lines = go [] }
(* next H or R line, together with the D lines that follow it *)
let impl_next (im:impl) : (string * (string * string) list) option =
  match im.lines with
  | [] -> None
  | l :: rest ->
      let rec ds acc r = match r with
        | d :: r' when String.length d > 2 && String.sub d 0 2 = "D " ->
            (match String.split_on_char ' ' d with
             | [_; name; hex] -> ds ((name, hex) :: acc) r'
             | _ -> ds acc r')
        | _ -> (List.rev acc, r) in
      let (dl, rest') = ds [] rest in
      im.lines <- rest'; Some (l, dl)

(* ---------- parsing of implementation result lines (for the judge) ---------- *)
let err_of_name = function
  | "WrongLen" -> EWrongLen | "NotAfterLast" -> ENotAfterLast | "Range" -> ERange | "Corrupt" -> ECorrupt
  | "NoData" -> ENoData | "Exists" -> EExists | "NotFound" -> ENotFound | "Mismatch" -> EMismatch
  | "HeaderTooLarge" -> EHeaderTooLarge | "NoHandle" -> ENoHandle | "NoFile" -> ENoFile
  | "HandleOpen" -> EHandleOpen | _ -> EOther
let parse_item (s:string) : line =
  match String.index_opt s ':' with
  | Some i -> (n_of_string (String.sub s 0 i), bytes_of_hex (String.sub s (i+1) (String.length s - i - 1)))
  | None -> failwith "item"
type okind = KOpened | KUnit | KLines | KNum | KBool | KRange | KLine
(* toks = the result tokens (before the " | ") *)
let out_of_tokens (k:okind) (toks:string list) : out =
  match toks with
  | ["panic"] -> ROPanic
  | ["hang"] -> ROHang
  | ["err"; e] -> RErr (err_of_name e)
  | "ok" :: rest ->
      (match k, rest with
       | KOpened, [p; h] -> ROpened (n_of_string (snd (split_kv p)), bytes_of_hex (snd (split_kv h)))
       | KUnit, _ -> RUnit
       | KLines, _ :: items -> RLines (List.map parse_item items)
       | KNum, [v] -> RNum (n_of_string v)
       | KBool, [v] -> RBool (v = "1")
       | KRange, ["none"] -> RRange None
       | KRange, [a; b] -> RRange (Some (n_of_string a, n_of_string b))
       | KLine, [it] -> RLine (parse_item it)
       | _ -> failwith "result shape")
  | _ -> failwith "result line"
let split_result (l:string) : string list * (string * (int * string)) list =
  (* "R <tokens> | name=len:hash ..." *)
  let bar = try Str.search_forward (Str.regexp_string " | ") l 0 with Not_found -> (try Str.search_forward (Str.regexp_string " |") l 0 with Not_found -> String.length l) in
  let res = String.sub l 2 (bar - 2) in
  let snap = if bar + 3 <= String.length l then String.sub l (bar + 3) (String.length l - bar - 3) else "" in
  let files = List.filter (fun x -> x <> "") (String.split_on_char ' ' snap) in
  let pf f = let (k, v) = split_kv f in
    match String.split_on_char ':' v with [ln; h] -> (k, (int_of_string ln, h)) | _ -> failwith "snapshot" in
  (List.filter (fun x -> x <> "") (String.split_on_char ' ' res), List.map pf files)

(* ---------- main loop ---------- *)
let () =
  let args = Array.to_list Sys.argv |> List.tl in
  let script = ref "" and implf = ref "" and selftest = ref false and judgef = ref "" and modelf = ref "-" in
  let rec pa = function
    | "--impl" :: f :: r -> implf := f; pa r
    | "--judge-out" :: f :: r -> judgef := f; pa r
    | "--model-out" :: f :: r -> modelf := f; pa r
    | "--selftest" :: r -> selftest := true; pa r
    | f :: r -> script := f; pa r
    | [] -> () in
  pa args;
  (* self test of the byte table against the extracted Byte.to_N *)
  for i = 0 to 255 do
    (match int64_of_n (Model.to_N (byte_of_int i)) with
     | Some v when Int64.to_int v = i && int_of_byte (byte_of_int i) = i -> ()
     | _ -> (prerr_endline "byte table self-test failed"; exit 4))
  done;
  if !selftest then (print_endline "selftest ok"; exit 0);
  let impl = if !implf = "" then None else Some (impl_load !implf) in
  let run_model = !modelf <> "none" in
  let moc = if !modelf = "-" || not run_model then stdout else open_out !modelf in
  let joc = if !judgef = "" then None else Some (open_out !judgef) in
  let ic = open_in !script in
  let w = ref init_world in
  let out = Buffer.create 65536 in
  let flush_out () = output_string moc (Buffer.contents out); Buffer.clear out in
  let emit res = if run_model then begin
      Buffer.add_string out ("R " ^ res ^ " | " ^ snapshot (fs_files !w.w_fs) ^ "\n"); if Buffer.length out > 60000 then flush_out () end in
  let do_op (o:op) : out = if run_model then (let (w', r) = step' !w o in w := w'; r) else RUnit in
  (* judge state *)
  let js = ref judge_init and jdead = ref false and opidx = ref 0 and last_fail = ref (-1) in
  let jprint s = match joc with Some oc -> output_string oc (s ^ "\n") | None -> () in
  let judging () = joc <> None && impl <> None in
  (* compare the expected files with the snapshot of the implementation *)
  let ignored : (string, unit) Hashtbl.t = Hashtbl.create 8 in
  let check_files (snap:(string * (int * string)) list) : string option =
    let exp = List.map (fun (k, c) -> (string_of_bytes k, (List.length c, fnv c))) (judge_files !js) in
    let is_part k = let n = String.length k in n >= 5 && String.sub k (n-5) 5 = ".part" in
    let skip k = is_part k || Hashtbl.mem ignored k in
    let exp = List.filter (fun (k, _) -> not (skip k)) exp and snap = List.filter (fun (k, _) -> not (skip k)) snap in
    let bad = ref None in
    List.iter (fun (k, (ln, h)) -> if !bad = None then
      match List.assoc_opt k snap with
      | Some (ln', h') when ln = ln' && h = h' -> ()
      | Some (ln', h') -> Hashtbl.replace ignored k (); bad := Some (Printf.sprintf "file %s expected=%d:%s got=%d:%s" k ln h ln' h')
      | None -> Hashtbl.replace ignored k (); bad := Some (Printf.sprintf "file %s expected=%d:%s got=absent" k ln h)) exp;
    List.iter (fun (k, (ln, h)) -> if !bad = None && List.assoc_opt k exp = None then
      (Hashtbl.replace ignored k (); bad := Some (Printf.sprintf "file %s expected=absent got=%d:%s" k ln h))) snap;
    !bad in
  (* one abstract step; r = what the implementation answered *)
  let jstep (o:op) (r:out) (desc:string) : unit =
    if judging () && not !jdead then begin
      (match o with
       | ONew _ | OOpen _ -> (match int64_of_n (judge_class !js o) with
                              | Some c when c <> 0L -> jprint (Printf.sprintf "J %d class %Ld" !opidx c)
                              | _ -> ())
       | _ -> ());
      let (js', allowed) = judge_step !js o in
      js := js';
      if not (ss_det js') then (jprint (Printf.sprintf "J %d undet" !opidx); jdead := true)
      else if not (allowed r) then begin
        jprint (Printf.sprintf "J %d FAIL result %s :: got %s" !opidx desc (string_of_out r));
        last_fail := !opidx;
        (* a wrong answer of a read or an accessor leaves the abstract state as the properties prescribe it:
           judging goes on; after a wrong answer of new/open/close/push or a fault operation it stops *)
        (match o with
         | OReadAll _ | OReadFirstN _ | OReadN _ | ONLines _ | OLastLine | OLen | OIsEmpty | ORange | OPayloadSize -> ()
         | _ -> jdead := true)
      end
    end in
  let jfiles (snap:(string * (int * string)) list) : unit =
    if judging () && not !jdead then
      (* a file that differs is reported once and left out of later comparisons; judging goes on
         (the abstract state is still what the properties prescribe) *)
      match check_files snap with
      | Some msg -> jprint (Printf.sprintf "J %d FAIL %s" !opidx msg)
      | None -> if !last_fail <> !opidx then jprint (Printf.sprintf "J %d ok" !opidx) in
  let payload_size_model () : int = match step' !w OPayloadSize with
    | (_, RNum v) -> (match int64_of_n v with Some x -> Int64.to_int x | None -> 0)
    | _ -> 0 in
  let payload_size_spec () : int = match !js.ss_h with Some h -> (let rec c = function O -> 0 | S k -> 1 + c k in c h.sh_p) | None -> 0 in
  (try while true do
    let l = String.trim (input_line ic) in
    if l = "" || l.[0] = '#' then () else begin
      let toks = String.split_on_char ' ' l in
      let implrec = match impl with Some im -> impl_next im | None -> None in
      let (itoks, isnap) = match implrec with
        | Some (r, _) when String.length r > 2 && r.[0] = 'R' -> split_result r
        | _ -> ([], []) in
      let have_impl = itoks <> [] in
      (* simple op: run on the model, judge against the implementation *)
      let simple (o:op) (k:okind) =
        emit (string_of_out (do_op o));
        if have_impl then (jstep o (out_of_tokens k itoks) l; jfiles isnap) in
      incr opidx;
      match toks with
      | ["history"; id] ->
          w := init_world; js := judge_init; jdead := false; opidx := 0; Hashtbl.reset ignored;
          if run_model then Buffer.add_string out ("H " ^ id ^ "\n"); jprint ("H " ^ id)
      | "new" :: name :: rest ->
          simple (ONew (bytes_of_string name, n_of_string (kv rest "p"), bytes_of_hex (kv rest "hdr"),
                        parse_caches (kv rest "caches"), parse_cb (kv rest "cb"))) KOpened
      | "open" :: name :: rest ->
          let p = kv rest "p" and h = kv rest "hdr" in
          simple (OOpen (bytes_of_string name, (if p = "any" then None else Some (n_of_string p)),
                         (if h = "any" then HdrAny else HdrIs (bytes_of_hex h)),
                         parse_caches (kv rest "caches"), parse_cb (kv rest "cb"))) KOpened
      | ["close"] -> simple OClose KUnit
      | ["push"; ts; hex] -> simple (OPush (n_of_string ts, bytes_of_hex hex)) KUnit
      | ["pushseq"; ts0; step; count; seed] ->
          let ts0 = Int64.of_string ("0u" ^ ts0) and step = Int64.of_string ("0u" ^ step) in
          let count = int_of_string count and seed = int_of_string seed in
          let line_i p i =
            let ii = Int64.of_int i in
            let prod_ok = (step = 0L) || (ii = 0L) || (Int64.unsigned_compare ii (Int64.unsigned_div (-1L) step) <= 0) in
            let sum = Int64.add ts0 (Int64.mul ii step) in
            if prod_ok && Int64.unsigned_compare sum ts0 >= 0
            then Some (n_of_int64 sum, List.init p (fun j -> byte_of_int ((seed + 131 * i + 71 * j) land 255))) else None in
          if run_model then begin
            let p = payload_size_model () in
            let res = ref "" and i = ref 0 in
            while !res = "" && !i < count do
              (match line_i p !i with
               | None -> res := Printf.sprintf "stop %d err Other" !i
               | Some (ts, pay) ->
                   (match do_op (OPush (ts, pay)) with
                    | RUnit -> incr i
                    | r -> res := Printf.sprintf "stop %d %s" !i (string_of_out r)))
            done;
            emit (if !res = "" then Printf.sprintf "ok %d" count else !res)
          end;
          if have_impl then begin
            (* the implementation accepted pushes 0..k-1 and answered `last` to push k (if any) *)
            let (k, last) = match itoks with
              | ["ok"; c] -> (int_of_string c, None)
              | "stop" :: i :: rest -> (int_of_string i, Some rest)
              | _ -> failwith "pushseq result" in
            let p = payload_size_spec () in
            for i = 0 to k - 1 do
              match line_i p i with Some (ts, pay) -> jstep (OPush (ts, pay)) RUnit (Printf.sprintf "%s [push %d]" l i) | None -> ()
            done;
            (match last with
             | Some rest ->
                 (match line_i p k with
                  | Some (ts, pay) -> jstep (OPush (ts, pay)) (out_of_tokens KUnit rest) (Printf.sprintf "%s [push %d]" l k)
                  | None -> ())     (* timestamp overflow: not a library call *)
             | None -> ());
            jfiles isnap
          end
      | ["read_all"; lo; hi] -> simple (OReadAll (parse_bound lo, parse_bound hi)) KLines
      | ["read_first_n"; k; lo; hi] -> simple (OReadFirstN (n_of_string k, parse_bound lo, parse_bound hi)) KLines
      | ["read_n"; k; lo; hi] -> simple (OReadN (n_of_string k, parse_bound lo, parse_bound hi)) KLines
      | ["n_lines"; lo; hi] -> simple (ONLines (parse_bound lo, parse_bound hi)) KNum
      | ["last_line"] -> simple OLastLine KLine
      | ["len"] -> simple OLen KNum
      | ["is_empty"] -> simple OIsEmpty KBool
      | ["range"] -> simple ORange KRange
      | ["payload_size"] -> simple OPayloadSize KNum
      | ["fs_trunc"; f; k] -> simple (OFsTrunc (file_of_spec f, n_of_string k)) KUnit
      | ["fs_rm"; f] -> simple (OFsRm (file_of_spec f)) KUnit
      | ["fs_write"; f; hex] -> simple (OFsWrite (file_of_spec f, bytes_of_hex hex)) KUnit
      | ["fs_append"; f; hex] -> simple (OFsAppend (file_of_spec f, bytes_of_hex hex)) KUnit
      | ["fs_cut"; f; k] -> simple (OFsCut (file_of_spec f, n_of_string k)) KUnit
      | ["fs_patch"; f; k; hex] -> simple (OFsPatch (file_of_spec f, n_of_string k, bytes_of_hex hex)) KUnit
      | ["fs_asset"; _; _] ->
          let dl = match implrec with Some (r, dl) when String.length r >= 4 && String.sub r 0 4 = "R ok" -> Some dl | _ -> None in
          (match !w.w_h, dl with
           | Some _, _ -> emit "err HandleOpen"
           | None, Some dl ->
               List.iter (fun (name, hex) -> ignore (do_op (OFsWrite (bytes_of_string name, bytes_of_hex hex)))) dl;
               emit "ok";
               if run_model then
               List.iter (fun (k, c) -> Buffer.add_string out (Printf.sprintf "D %s %s\n" k (hex_of_bytes c)))
                 (List.sort compare (List.map (fun (k, c) -> (string_of_bytes k, c)) (fs_files !w.w_fs)))
           | None, None -> emit "err NoFile");
          (match dl with
           | Some dl when have_impl ->
               List.iter (fun (name, hex) -> jstep (OFsWrite (bytes_of_string name, bytes_of_hex hex)) RUnit l) dl; jfiles isnap
           | _ -> ())
      | ["dump"] ->
          emit "ok";
          if run_model then
          List.iter (fun (k, c) -> Buffer.add_string out (Printf.sprintf "D %s %s\n" k (hex_of_bytes c)))
            (List.sort compare (List.map (fun (k, c) -> (string_of_bytes k, c)) (fs_files !w.w_fs)));
          if have_impl then jfiles isnap
      | _ -> prerr_endline ("syntax error: " ^ l); exit 2
    end
  done with End_of_file -> ());
  flush_out ();
  (match joc with Some oc -> close_out oc | None -> ());
  if moc != stdout then close_out moc
